package main

import "verif/engine/sym"

func init() {
	grids["C01"] = &gridDef{
		explain: "each case runs the real Compute pipeline of one indicator symbolically on n symbolic inputs and asks the solver whether any output can differ from the documented formula written in the harness",
		bounds:  func(t string) string { return "periods<=3, n<=w+3 (quick); periods<=4, n<=w+5 (thorough)" },
		outside: "longer inputs, larger periods, float32/integer instantiations, floating-point rounding",
		assumptions: append([]string{realModeNote, "oracle: the doc-comment formula restated in the harness"}, commonAssumptions...),
		cases: func(tier string) []sym.CaseSpec {
			var out []sym.CaseSpec
			maxP, extra := 3, 3
			if tier == "thorough" {
				maxP, extra = 4, 5
			}
			for p := 1; p <= maxP; p++ {
				for n := p; n <= p-1+extra; n++ {
					out = append(out, cs("H_C01_Sma", p, n))
					out = append(out, cs("H_C01_MovingMax", p, n))
				}
			}
			return out
		},
	}
}
