// vcheck decides the properties of /verif/properties.jsonl for /repo's current
// working tree by symbolic execution of the real code (go/ssa -> SMT-LIB2).
package main

import (
	"encoding/json"
	"flag"
	"fmt"
	"math/rand"
	"os"
	"path/filepath"
	"sort"
	"strconv"
	"strings"
	"sync"
	"time"

	"verif/engine/sym"
)

// verifDir / harnessDir: VERIF_SCRATCH=<dir> redirects the harness module to
// <dir>/harness (its go.mod may point at a scratch copy of the library) and all
// outputs (evidence, replays, binaries) to <dir>; used only for mutation trials.
var (
	verifDir   = "/verif"
	harnessDir = "/verif/harness"
)

const hPkg = "verif/harness/h"

func init() {
	if d := os.Getenv("VERIF_SCRATCH"); d != "" {
		verifDir, harnessDir = d, filepath.Join(d, "harness")
		os.MkdirAll(filepath.Join(d, "bin"), 0o755)
	}
}

type options struct {
	prop      string
	tier      string
	seed      int64
	workers   int
	only      string
	verbose   bool
	timeoutMs int
}

func main() {
	if len(os.Args) < 2 {
		fmt.Fprintln(os.Stderr, "usage: vcheck <Cxx> [--tier quick|thorough] | vcheck replay <file> | vcheck registry")
		os.Exit(2)
	}
	switch os.Args[1] {
	case "replay":
		os.Exit(cmdReplay(os.Args[2:]))
	case "registry":
		if err := writeRegistry(); err != nil {
			fmt.Fprintln(os.Stderr, err)
			os.Exit(2)
		}
		return
	}
	fs := flag.NewFlagSet("vcheck", flag.ExitOnError)
	opt := options{prop: os.Args[1]}
	fs.StringVar(&opt.tier, "tier", "", "quick|thorough")
	fs.IntVar(&opt.workers, "workers", 16, "parallel workers")
	fs.StringVar(&opt.only, "only", "", "substring filter on case ids (development)")
	fs.BoolVar(&opt.verbose, "v", false, "verbose")
	fs.Parse(os.Args[2:])
	if opt.tier == "" {
		opt.tier = os.Getenv("VERIF_TIER")
	}
	if opt.tier == "" {
		opt.tier = "quick"
	}
	if s := os.Getenv("VERIF_SEED"); s != "" {
		opt.seed, _ = strconv.ParseInt(s, 10, 64)
	}
	opt.timeoutMs = 20000
	if opt.tier == "thorough" {
		opt.timeoutMs = 120000
	}
	os.Exit(runProperty(opt))
}

type caseOut struct {
	res *sym.CaseResult
}

func runProperty(opt options) int {
	t0 := time.Now()
	grid, ok := grids[opt.prop]
	if !ok {
		fmt.Fprintf(os.Stderr, "no check registered for %s\n", opt.prop)
		return 2
	}
	if err := writeRegistry(); err != nil {
		fmt.Fprintln(os.Stderr, "registry:", err)
	}
	prog, err := sym.Load(harnessDir, "./h")
	if err != nil {
		fmt.Fprintln(os.Stderr, "load failed:", err)
		writeFailureEvidence(opt, "load failed: "+err.Error(), time.Since(t0))
		return 2
	}
	loadT := time.Since(t0)
	pr := newProber(prog, opt.timeoutMs)
	cases := grid.cases(opt.tier, pr)
	pr.close()
	if opt.only != "" {
		var f []sym.CaseSpec
		for _, c := range cases {
			if strings.Contains(c.ID(), opt.only) {
				f = append(f, c)
			}
		}
		cases = f
	}
	// seeded order (results do not depend on it)
	rng := rand.New(rand.NewSource(opt.seed))
	rng.Shuffle(len(cases), func(i, j int) { cases[i], cases[j] = cases[j], cases[i] })
	weight := func(c sym.CaseSpec) int {
		w := c.Weight
		if w == 0 {
			for _, p := range c.Params {
				w += p
			}
		}
		if c.FP {
			w += 1000
		}
		return w
	}
	sort.SliceStable(cases, func(i, j int) bool { return weight(cases[i]) > weight(cases[j]) })

	results := make([]*sym.CaseResult, len(cases))
	var wg sync.WaitGroup
	ch := make(chan int)
	var mu sync.Mutex
	done := 0
	for w := 0; w < opt.workers; w++ {
		wg.Add(1)
		go func(w int) {
			defer wg.Done()
			sol, err := sym.NewSolver(opt.timeoutMs)
			if err != nil {
				fmt.Fprintln(os.Stderr, "solver:", err)
				return
			}
			defer sol.Close()
			if opt.tier == "thorough" {
				sol.CrossEvery = 97
			} else {
				sol.CrossEvery = 499
			}
			for i := range ch {
				if i%5 == 0 || grid.validateN > 0 {
					cases[i].WantModel = true
				}
				if cases[i].MaxWallS == 0 {
					cases[i].MaxWallS = 90
					if opt.tier == "thorough" {
						cases[i].MaxWallS = 360
					}
				}
				r := runCaseSafe(prog, sol, cases[i])
				results[i] = r
				mu.Lock()
				done++
				if opt.verbose {
					fmt.Fprintf(os.Stderr, "[%d/%d] %s paths=%d %.2fs %s viol=%d\n", done, len(cases), cases[i].ID(), r.Paths, r.Wall.Seconds(), r.Incomplete, len(r.Violations))
				}
				mu.Unlock()
			}
		}(w)
	}
	for i := range cases {
		ch <- i
	}
	close(ch)
	wg.Wait()

	rep := newReport(opt, grid, prog, loadT)
	for _, r := range results {
		if r != nil {
			rep.add(r)
		}
	}
	code := rep.finish(prog, time.Since(t0))
	return code
}

func runCaseSafe(p *sym.Program, sol *sym.Solver, c sym.CaseSpec) (res *sym.CaseResult) {
	defer func() {
		if r := recover(); r != nil {
			res = &sym.CaseResult{Spec: c, Incomplete: fmt.Sprintf("executor crashed: %v", r),
				Outcomes: map[sym.Outcome]int{}, Asserts: map[string]*sym.AssertAgg{}}
			sol.Reset()
		}
	}()
	return sym.RunCase(p, sol, c)
}

// ---- known findings ----

type knownFinding struct {
	ID       string `json:"id"`
	Property string `json:"property"`
	What     string `json:"what"`
	Site     string `json:"site,omitempty"`
	Witness  string `json:"witness,omitempty"`
}

type knownFile struct {
	Findings []knownFinding `json:"findings"`
	Fixed    []string       `json:"fixed"`
}

func loadKnown() map[string]knownFinding {
	m := map[string]knownFinding{}
	data, err := os.ReadFile("/verif/known_findings.json")
	if err != nil {
		return m
	}
	var kf knownFile
	if json.Unmarshal(data, &kf) == nil {
		for _, f := range kf.Findings {
			m[f.ID] = f
		}
	}
	return m
}

func sortedKeys[V any](m map[string]V) []string {
	var ks []string
	for k := range m {
		ks = append(ks, k)
	}
	sort.Strings(ks)
	return ks
}
