package main

import "verif/engine/sym"

func init() {
	grids["C12"] = &gridDef{
		explain: "Sync.Run is executed on real in-memory source and target repositories with symbolic, strictly increasing snapshot dates, symbolic prices and a symbolic default start date; per asset the target afterwards must hold its previous snapshots followed by exactly the source snapshots dated after its last date (or on/after the default when it had none), a second run must add nothing, an injected GetSince / Append failure for one asset must leave the others synchronised and make Run return an error; with one worker the partial-order certificate extends the result to all interleavings; with two workers the explored schedule is checked and the certificate over memory cells reports data races",
		bounds: func(t string) string {
			if t == "thorough" {
				return "1..3 assets, 1..3 source snapshots each, every prefix length already in the target, explicit / implicit asset list, no fault / source fault / target fault on the first asset, 1 and 2 workers; file-system (stubbed CSV layer, and real CSV layer over the virtual file system) and SQL targets (models of C10): 1..2 assets, 1..2 snapshots, one worker, no fault"
			}
			return "1..2 assets, 1..3 source snapshots each, every prefix length already in the target, explicit / implicit asset list, no fault / source fault / target fault, 1 and 2 workers; file-system (stubbed CSV layer, and real CSV layer over the virtual file system) and SQL targets (models of C10): 1..2 assets, 1..2 snapshots, one worker, no fault"
		},
		outside:     "more than two workers; with two workers three scheduling policies of the executor (lowest-id first, highest-id first, round robin) are explored, not every job assignment (the certificate is not issued there: two workers draining one jobs channel is legitimate nondeterminism); file-system / SQL repositories as Sync endpoints; cmd/indicator-sync flag parsing",
		assumptions: append([]string{"day-number model of time.Time", "time.Sleep is a no-op; slog calls have no effect", realModeNote}, commonAssumptions...),
		cases: func(tier string, pr *prober) []sym.CaseSpec {
			maxA := 2
			if tier == "thorough" {
				maxA = 3
			}
			out := selfTests()
			for na := 1; na <= maxA; na++ {
				for ns := 1; ns <= 3; ns++ {
					combos := 1
					for i := 0; i < na; i++ {
						combos *= 4
					}
					for tm := 0; tm < combos; tm++ {
						ok := true
						for j := 0; j < na; j++ {
							if (tm>>(2*j))&3 > ns {
								ok = false
							}
						}
						if !ok {
							continue
						}
						for explicit := 0; explicit <= 1; explicit++ {
							for fault := 0; fault <= 2; fault++ {
								for workers := 1; workers <= 2; workers++ {
									if workers == 2 && (fault != 0 && ns > 1) {
										continue
									}
									for sched := 0; sched <= 2; sched++ {
										if workers == 1 && sched > 0 {
											continue // one worker: the certificate covers every schedule
										}
										c := cs("H_C12", na, ns, tm, explicit, fault, workers)
										c.Cert, c.TrackMem = true, true
										c.Sched = sched
										out = append(out, c)
									}
								}
							}
						}
					}
				}
			}
			// every asset fails (more failures than workers)
			for na := 2; na <= maxA; na++ {
				for workers := 1; workers <= 2; workers++ {
					c := cs("H_C12", na, 1, 0, 1, 3, workers)
					c.Cert, c.TrackMem = true, true
					out = append(out, c)
				}
			}
			// other kinds of target repository (their "asset not there" errors differ)
			for tkind := 1; tkind <= 4; tkind++ {
				for na := 1; na <= 2; na++ {
					for ns := 1; ns <= 2; ns++ {
						for tm := 0; tm < 16; tm++ {
							if tm&3 > ns || (tm>>2)&3 > ns || na == 1 && tm > 3 {
								continue
							}
							for explicit := 0; explicit <= 1; explicit++ {
								if tkind == 4 && explicit == 1 {
									continue // zero-length files register assets for the implicit list only
								}
								c := cs("H_C12_Target", tkind, na, ns, tm, explicit)
								c.Cert, c.TrackMem = true, true
								out = append(out, c)
							}
						}
					}
				}
			}
			return out
		},
	}
}
