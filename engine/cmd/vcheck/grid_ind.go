package main

import (
	"verif/engine/sym"
)

// indSpec: how the grids configure one entry of the harness indicator table.
type indSpec struct {
	name       string
	nper       int      // number of integer periods
	nin        int      // input streams
	ordered    bool     // documented constraint cfg[0] <= cfg[1]
	minP       int      // smallest admissible period (default 1)
	heavy      bool     // forks on window orderings (search tree): smaller grids
	nonlin     bool     // nonlinear real arithmetic in the scaling check: smaller C18 grid
	c15        bool     // has a documented range / ordering / non-negativity
	noDeg      bool     // no homogeneity degree tabulated
	cfgQ, cfgT [][3]int // explicit configuration lists (quick / thorough) replacing the enumeration
	sorted3    bool     // documented constraint cfg[0] <= cfg[1] <= cfg[2]
	dflt       [3]int   // the default configuration (zero = not used): checked around its warm-up
	depMinP    int      // smallest period at which outputs depend on the newest input (default 1)
	qDn, qP    int      // quick-tier overrides of the dn / period bounds (0 = none)
	tDn, tP    int      // thorough-tier overrides
}

var indSpecs = []indSpec{
	{name: "Sma", dflt: [3]int{50, 0, 0}, nper: 1, nin: 1}, {name: "Ema", dflt: [3]int{20, 0, 0}, nper: 1, nin: 1}, {name: "Macd", dflt: [3]int{12, 26, 9}, nper: 3, nin: 1, ordered: true}, {name: "Atr", dflt: [3]int{14, 0, 0}, nper: 1, nin: 3, c15: true},
	// symbolic real-valued settings (one query covers every value of the setting)
	{name: "StochasticRsi2", nper: 2, nin: 1, heavy: true, c15: true, nonlin: true, qDn: 1, tDn: 2,
		cfgQ: [][3]int{{2, 2, 0}, {3, 2, 0}}, cfgT: [][3]int{{2, 2, 0}, {3, 2, 0}, {2, 3, 0}}},
	{name: "KeltnerChannel2", nper: 2, nin: 3, c15: true, cfgQ: [][3]int{{3, 1, 0}, {1, 3, 0}}, cfgT: [][3]int{{3, 1, 0}, {1, 3, 0}, {2, 3, 0}, {4, 2, 0}, {2, 4, 0}}},
	// configured through the exported Period field after the default constructor
	{name: "SmaF", nper: 1, nin: 1, cfgQ: [][3]int{{2, 0, 0}, {3, 0, 0}}}, {name: "EmaF", nper: 1, nin: 1, cfgQ: [][3]int{{2, 0, 0}, {3, 0, 0}}},
	{name: "CciF", nper: 1, nin: 3, minP: 2, cfgQ: [][3]int{{2, 0, 0}, {3, 0, 0}}}, {name: "MovingMaxF", nper: 1, nin: 1, heavy: true, c15: true, cfgQ: [][3]int{{2, 0, 0}}},
	{name: "MovingMinF", nper: 1, nin: 1, heavy: true, c15: true, cfgQ: [][3]int{{2, 0, 0}}}, {name: "MovingSumF", nper: 1, nin: 1, cfgQ: [][3]int{{2, 0, 0}, {3, 0, 0}}},
	{name: "RmaF", nper: 1, nin: 1, cfgQ: [][3]int{{2, 0, 0}, {3, 0, 0}}}, {name: "SmmaF", nper: 1, nin: 1, cfgQ: [][3]int{{2, 0, 0}, {3, 0, 0}}},
	{name: "BollingerBandsF", nper: 1, nin: 1, c15: true, nonlin: true, qP: 2, qDn: 1, tP: 3, tDn: 2, cfgQ: [][3]int{{2, 0, 0}}},
	{name: "MovingStdF", nper: 1, nin: 1, c15: true, nonlin: true, qP: 2, qDn: 2, tP: 3, tDn: 2, cfgQ: [][3]int{{2, 0, 0}}},
	{name: "EmaS", nper: 1, nin: 1}, {name: "EnvelopeSmaP", nper: 1, nin: 1, c15: true}, {name: "NviI", nper: 0, nin: 2},
	// trend A
	{name: "Apo", dflt: [3]int{14, 30, 0}, nper: 2, nin: 1, ordered: true}, {name: "Aroon", nper: 1, nin: 2, heavy: true, c15: true, depMinP: 2, qDn: 3, tDn: 4}, {name: "Bop", nper: 0, nin: 4, c15: true},
	{name: "Cci", dflt: [3]int{20, 0, 0}, nper: 1, nin: 3, minP: 2}, {name: "Dema", dflt: [3]int{20, 20, 0}, nper: 2, nin: 1}, {name: "EnvelopeSma", dflt: [3]int{20, 0, 0}, nper: 1, nin: 1, c15: true}, {name: "EnvelopeEma", dflt: [3]int{20, 0, 0}, nper: 1, nin: 1, c15: true},
	{name: "Hma", nper: 1, nin: 1}, {name: "Kama", nper: 3, nin: 1, nonlin: true}, {name: "Kdj", nper: 3, nin: 3, heavy: true, qDn: 1, tDn: 2}, {name: "MassIndex", nper: 3, nin: 2, nonlin: true},
	// trend B
	{name: "Mls", nper: 1, nin: 2, minP: 2, nonlin: true}, {name: "Mlr", nper: 1, nin: 2, minP: 2, nonlin: true},
	{name: "MovingMax", nper: 1, nin: 1, heavy: true, c15: true}, {name: "MovingMin", nper: 1, nin: 1, heavy: true, c15: true}, {name: "MovingSum", nper: 1, nin: 1},
	{name: "Rma", dflt: [3]int{20, 0, 0}, nper: 1, nin: 1}, {name: "Smma", dflt: [3]int{7, 0, 0}, nper: 1, nin: 1}, {name: "Tema", dflt: [3]int{20, 20, 20}, nper: 3, nin: 1}, {name: "Trima", dflt: [3]int{15, 0, 0}, nper: 1, nin: 1, minP: 2},
	{name: "Trix", dflt: [3]int{15, 0, 0}, nper: 1, nin: 1}, {name: "Tsi", nper: 2, nin: 1, nonlin: true}, {name: "TypicalPrice", nper: 0, nin: 3}, {name: "WeightedClose", nper: 0, nin: 3},
	{name: "Vwma", nper: 1, nin: 2}, {name: "Wma", nper: 1, nin: 1},
	// momentum
	{name: "AwesomeOscillator", dflt: [3]int{5, 34, 0}, nper: 2, nin: 2, ordered: true}, {name: "ChaikinOscillator", nper: 2, nin: 4, ordered: true},
	{name: "IchimokuCloud", nper: 3, nin: 3, heavy: true, sorted3: true}, {name: "Ppo", nper: 3, nin: 1, ordered: true, nonlin: true}, {name: "Pvo", nper: 3, nin: 1, ordered: true, nonlin: true},
	{name: "Qstick", dflt: [3]int{20, 0, 0}, nper: 1, nin: 2}, {name: "Rsi", nper: 1, nin: 1, c15: true, nonlin: true},
	{name: "StochasticOscillator", nper: 2, nin: 3, heavy: true, c15: true}, {name: "StochasticRsi", nper: 1, nin: 1, heavy: true, c15: true, minP: 2, nonlin: true},
	{name: "WilliamsR", nper: 1, nin: 3, heavy: true, c15: true},
	// volume
	{name: "Mfm", nper: 0, nin: 3, c15: true}, {name: "Mfv", nper: 0, nin: 4}, {name: "Ad", nper: 0, nin: 4}, {name: "Cmf", nper: 1, nin: 4, c15: true},
	{name: "Emv", nper: 1, nin: 3, nonlin: true}, {name: "Fi", dflt: [3]int{13, 0, 0}, nper: 1, nin: 2}, {name: "Mfi", nper: 1, nin: 4, c15: true, nonlin: true, qDn: 2, qP: 2, tDn: 2, tP: 3}, {name: "Nvi", nper: 0, nin: 2},
	{name: "Obv", nper: 0, nin: 2}, {name: "Vpt", nper: 0, nin: 2, nonlin: true}, {name: "Vwap", dflt: [3]int{14, 0, 0}, nper: 1, nin: 2},
	// volatility
	{name: "AccelerationBands", nper: 1, nin: 3, c15: true, nonlin: true, qP: 2, qDn: 2, tP: 3, tDn: 3},
	{name: "BollingerBands", nper: 1, nin: 1, c15: true, nonlin: true, qP: 2, qDn: 1, tP: 3, tDn: 2},
	{name: "BollingerBandWidth", nper: 1, nin: 1, c15: true, nonlin: true, qP: 2, qDn: 1, tP: 3, tDn: 2, depMinP: 2},
	{name: "MovingStd", nper: 1, nin: 1, c15: true, nonlin: true, qP: 2, qDn: 2, tP: 3, tDn: 2},
	{name: "PercentB", nper: 1, nin: 1, minP: 2, nonlin: true, qP: 2, qDn: 1, tP: 3, tDn: 2},
	{name: "DonchianChannel", nper: 1, nin: 1, heavy: true, c15: true}, {name: "KeltnerChannel", dflt: [3]int{20, 0, 0}, nper: 1, nin: 3, c15: true},
	{name: "ChandelierExit", nper: 1, nin: 3, heavy: true, tDn: 2}, {name: "Po", nper: 1, nin: 3, heavy: true, minP: 2, nonlin: true, qDn: 1, tP: 3, tDn: 2},
	{name: "SuperTrend", nper: 1, nin: 3}, {name: "UlcerIndex", nper: 1, nin: 1, heavy: true, c15: true, nonlin: true, qP: 1, tP: 2, tDn: 1},
}

// configs enumerates period configurations with all periods in [minP, maxP].
func (s indSpec) configs(maxP int) [][3]int {
	if s.cfgQ != nil {
		if maxP > 3 && s.cfgT != nil || s.heavy && maxP > 2 && s.cfgT != nil {
			return s.cfgT
		}
		return s.cfgQ
	}
	lo := s.minP
	if lo == 0 {
		lo = 1
	}
	var out [][3]int
	switch s.nper {
	case 0:
		out = append(out, [3]int{0, 0, 0})
	case 1:
		for p := lo; p <= maxP; p++ {
			out = append(out, [3]int{p, 0, 0})
		}
	case 2:
		for a := lo; a <= maxP; a++ {
			for b := lo; b <= maxP; b++ {
				if s.ordered && a > b {
					continue
				}
				out = append(out, [3]int{a, b, 0})
			}
		}
	case 3:
		for a := lo; a <= maxP; a++ {
			for b := lo; b <= maxP; b++ {
				for c := lo; c <= maxP; c++ {
					if s.ordered && a > b || s.sorted3 && (a > b || b > c) {
						continue
					}
					// thin the cube: keep configurations where alignment amounts differ pairwise
					// somewhere, the diagonal, and the all-ones corner
					if s.heavy && maxP <= 2 && a+b+c >= 6 {
						continue // the all-maximal corner of a search-tree based indicator: thorough tier only
					}
					if a == b && b == c || a != b && b != c || a == 1 && b == 1 || b == 1 && c == 1 {
						out = append(out, [3]int{a, b, c})
					}
				}
			}
		}
	}
	return out
}

// wideConfigs: configurations with one period far from the others (internal
// buffer sizes that only matter when periods differ by more than the slack of
// the goroutine chain); used by the termination check.
func (s indSpec) wideConfigs() [][3]int {
	if s.heavy {
		return nil
	}
	lo := s.minP
	if lo == 0 {
		lo = 1
	}
	switch s.nper {
	case 1:
		return [][3]int{{9, 0, 0}}
	case 2:
		out := [][3]int{{lo, 9, 0}, {2, 12, 0}}
		if !s.ordered {
			out = append(out, [3]int{9, lo, 0})
		}
		return out
	case 3:
		out := [][3]int{{lo, 9, 2}, {2, 3, 9}}
		if !s.ordered {
			out = append(out, [3]int{9, 2, 1})
		}
		return out
	}
	return nil
}

type indGridOpt struct {
	maxP, heavyP int // period bounds (heavy: search-tree based)
	dn, heavyDn  int // inputs beyond the warm-up
	thorough     bool
}

func indOpts(tier string) indGridOpt {
	if tier == "thorough" {
		return indGridOpt{maxP: 4, heavyP: 3, dn: 5, heavyDn: 3, thorough: true}
	}
	return indGridOpt{maxP: 3, heavyP: 2, dn: 3, heavyDn: 2}
}

func (s indSpec) lim(o indGridOpt) (int, int) {
	p, d := o.maxP, o.dn
	if s.heavy {
		p, d = o.heavyP, o.heavyDn
	}
	if o.thorough {
		if s.tDn > 0 {
			d = s.tDn
		}
		if s.tP > 0 {
			p = s.tP
		}
	} else {
		if s.qDn > 0 {
			d = s.qDn
		}
		if s.qP > 0 {
			p = s.qP
		}
	}
	return p, d
}

func csi(h string, s indSpec, cfg [3]int, rest ...int) sym.CaseSpec {
	p := append([]int{cfg[0], cfg[1], cfg[2]}, rest...)
	c := sym.CaseSpec{Pkg: hPkg, Harness: h, Name: s.name, Params: p}
	w := 1
	for _, r := range rest {
		w += r
	}
	w *= 1 + cfg[0] + cfg[1] + cfg[2]
	if s.heavy {
		w *= 50
	}
	if s.nonlin {
		w *= 5
	}
	c.Weight = w
	c.MaxPaths = 6000
	return c
}

const indBoundsQ = "default configurations of 19 linear indicators at n = warm-up + 1..2; indicator periods in 1..3 (1..2 for search-tree based ones), all admissible combinations with pairwise different alignment amounts; input length n = warm-up + 1..3 (+1..2)"
const indBoundsT = "default configurations of 19 linear indicators at n = warm-up + 1..2; indicator periods in 1..4 (1..3 for search-tree based ones); input length n = warm-up + 1..5 (+1..3)"

func init() {
	grids["C01"] = &gridDef{
		explain: "each case runs the real Compute pipeline of one indicator (float64 instantiation) symbolically on n symbolic inputs per stream and asks the solver whether any output can differ from the documented formula (doc comment restated from the input slices in the harness table), position by position with output k referring to input position k + warm-up",
		bounds: func(t string) string {
			if t == "thorough" {
				return indBoundsT
			}
			return indBoundsQ
		},
		outside:     "longer inputs, larger periods, non-default real-valued settings other than the symbolic EMA smoothing / envelope percentage / NVI initial value (entries EmaS, EnvelopeSmaP, NviI), float32/integer instantiations, floating-point rounding; positions whose documented formula divides by zero",
		assumptions: append([]string{realModeNote, "oracle: the doc-comment formulas in harness/h/ind_*.go (DESIGN.md Appendix A)", "sqrt(t) is a fresh s >= 0 with s*s = t (t >= 0 assumed)"}, commonAssumptions...),
		cases: func(tier string, pr *prober) []sym.CaseSpec {
			o := indOpts(tier)
			var out []sym.CaseSpec
			for _, s := range indSpecs {
				mp, dn := s.lim(o)
				for _, cfg := range s.configs(mp) {
					for d := 1; d <= dn; d++ {
						c := csi("H_C01", s, cfg, d)
						c.WantModel = d == 2
						out = append(out, c)
					}
				}
				if s.dflt != [3]int{} {
					// the default configuration, just beyond its warm-up
					for d := 1; d <= 2; d++ {
						c := csi("H_C01", s, s.dflt, d)
						c.MaxWallS = 240
						c.Weight = 1 << 20
						out = append(out, c)
					}
				}
			}
			return out
		},
	}

	grids["C02"] = &gridDef{
		explain: "for every configuration the warm-up w is read from the real IdlePeriod(); the real pipeline is run on n symbolic inputs for every n in [0, 2w+2] and the number of values on every output must be max(0, n-w) on every path; a second harness shows by a satisfiability query that output k really depends on input position k+w",
		bounds: func(t string) string {
			if t == "thorough" {
				return indBoundsT + "; lengths: every n in [0, 2w+2]"
			}
			return indBoundsQ + "; lengths: every n in [0, 2w+2]"
		},
		outside:     "larger periods, unequal input lengths (C03), other element types",
		assumptions: append([]string{realModeNote, "dependency witness: `Possible` obligations are satisfiability queries (sat required)"}, commonAssumptions...),
		cases: func(tier string, pr *prober) []sym.CaseSpec {
			o := indOpts(tier)
			var out []sym.CaseSpec
			for _, s := range indSpecs {
				if s.dflt != [3]int{} {
					if w, ok := pr.idle(s.name, s.dflt); ok {
						for _, n := range []int{0, 1, w - 1, w, w + 1, w + 2} {
							if n >= 0 {
								c := csi("H_C02", s, s.dflt, n)
								c.Weight = 1 << 20
								out = append(out, c)
							}
						}
					}
				}
				mp, dn := s.lim(o)
				for _, cfg := range s.configs(mp) {
					w, ok := pr.idle(s.name, cfg)
					if !ok {
						continue
					}
					top := 2*w + 2
					if s.heavy && top > w+dn+1 {
						top = w + dn + 1
					}
					for n := 0; n <= top; n++ {
						out = append(out, csi("H_C02", s, cfg, n))
					}
					if !s.heavy && !((s.name == "Mls" || s.name == "Mlr") && cfg[0] > 2 && tier != "thorough") {
						// the same length contract when one executed division has a zero denominator
						// (NaN / Inf natively): values are exempt there, the number of values is not
						c := csi("H_C02", s, cfg, w+2)
						c.ZeroDen = 1
						out = append(out, c)
					}
					dd := 2
					if s.heavy || s.nonlin && tier != "thorough" {
						dd = 1
					}
					if s.ordered && cfg[0] == cfg[1] || cfg[0] < s.depMinP {
						continue // fast == slow / window of one: the documented value is constant
					}
					if (s.name == "Mls" || s.name == "Mlr") && cfg[0] > 2 && tier != "thorough" {
						continue // nonlinear satisfiability query beyond the quick time-out
					}
					out = append(out, csi("H_C02_Dep", s, cfg, dd))
				}
			}
			return out
		},
	}

	grids["C15"] = &gridDef{
		explain: "the real pipelines of the range-bounded indicators run on symbolic valid OHLCV series (0 < low <= open, close <= high, volume >= 0 assumed); the solver decides whether any output can leave its documented range, whether bands can cross, and whether a non-negative quantity can be negative",
		bounds: func(t string) string {
			if t == "thorough" {
				return indBoundsT
			}
			return indBoundsQ
		},
		outside:     "longer series, larger periods, floating-point rounding; positions with a zero defining denominator",
		assumptions: append([]string{realModeNote, "nonlinear real arithmetic (z3 nlsat, cvc5 as fallback)"}, commonAssumptions...),
		cases: func(tier string, pr *prober) []sym.CaseSpec {
			o := indOpts(tier)
			var out []sym.CaseSpec
			for _, s := range indSpecs {
				if !s.c15 {
					continue
				}
				mp, dn := s.lim(o)
				for _, cfg := range s.configs(mp) {
					for d := 1; d <= dn; d++ {
						out = append(out, csi("H_C15", s, cfg, d))
					}
				}
			}
			return out
		},
	}
}
