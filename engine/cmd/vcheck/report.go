package main

import (
	"encoding/json"
	"fmt"
	"os"
	"path/filepath"
	"sort"
	"strconv"
	"strings"
	"time"

	"verif/engine/sym"
)

type report struct {
	opt     options
	grid    *gridDef
	loadT   time.Duration
	results []*sym.CaseResult
	known   map[string]knownFinding
}

func newReport(opt options, g *gridDef, p *sym.Program, loadT time.Duration) *report {
	return &report{opt: opt, grid: g, loadT: loadT, known: loadKnown()}
}

func (r *report) add(c *sym.CaseResult) { r.results = append(r.results, c) }

func modeOf(c sym.CaseSpec) string {
	if c.FP {
		return "fp"
	}
	return "real"
}

func sanitize(s string) string {
	var sb strings.Builder
	for _, ch := range s {
		switch {
		case ch >= 'a' && ch <= 'z', ch >= 'A' && ch <= 'Z', ch >= '0' && ch <= '9', ch == '-', ch == '_':
			sb.WriteRune(ch)
		default:
			sb.WriteByte('_')
		}
	}
	return sb.String()
}

func (r *report) writeReplay(v sym.Violation, dir string) (string, error) {
	os.MkdirAll(dir, 0o755)
	rf := replayFile{Property: r.opt.prop, Harness: v.Case.Harness, Name: v.Case.Name, Package: v.Case.Pkg, Params: v.Case.Params,
		Mode: modeOf(v.Case), Assignment: v.Model, Known: v.Known,
		Expect: replayExpect{Kind: v.Kind, Label: v.Label, Detail: v.Detail}}
	if rf.Assignment == nil {
		rf.Assignment = map[string]string{}
	}
	name := sanitize(v.Case.ID()+"-"+v.Label) + ".json"
	path := filepath.Join(dir, name)
	b, _ := json.MarshalIndent(rf, "", " ")
	return path, os.WriteFile(path, b, 0o644)
}

type violOut struct {
	V          sym.Violation
	Replay     string
	Reproduced string // reproduced | not | skipped | error
	Note       string
}

// finish replays violations, prints verdict lines, writes evidence; returns the exit code.
func (r *report) finish(p *sym.Program, wall time.Duration) int {
	defer cleanupReplayBins()
	sort.Slice(r.results, func(i, j int) bool { return r.results[i].Spec.ID() < r.results[j].Spec.ID() })
	var stats sym.SolverStats
	paths, steps := 0, 0
	outcomes := map[string]int{}
	incomplete := []string{}
	asserts := map[string]*sym.AssertAgg{}
	reachVacuous := []string{}
	funcs := map[string]bool{}
	stubs := map[string]bool{}
	certs, certIssued, cEvents, cEdges, cPairs := 0, 0, 0, 0, 0
	certNotes := map[string]int{}
	merges, mergeAborts, sideConds := 0, 0, 0
	knownHeld := map[string]int{}
	var viols []sym.Violation
	nontrivial := 0
	selfOK, selfN := 0, 0
	for _, c := range r.results {
		if strings.HasPrefix(c.Spec.Tag, "self:") {
			// engine self-test: the planted defect must be detected
			selfN++
			want := strings.TrimPrefix(c.Spec.Tag, "self:")
			got := false
			if want == "nocert" {
				got = c.Certs > 0 && c.CertIssued == 0
			}
			for _, v := range c.Violations {
				if v.Kind == want {
					got = true
				}
			}
			if got {
				selfOK++
			} else {
				incomplete = append(incomplete, "ENGINE SELF-TEST FAILED: "+c.Spec.ID()+" did not report "+want)
			}
			c.Violations = nil
			c.CertNotes = nil
			stats.Add(&c.Stats)
			continue
		}
		stats.Add(&c.Stats)
		paths += c.Paths
		steps += c.Steps
		merges += c.Merges
		mergeAborts += c.MergeAborts
		sideConds += c.SideConds
		for o, n := range c.Outcomes {
			outcomes[string(o)] += n
		}
		if c.Incomplete != "" {
			incomplete = append(incomplete, c.Spec.ID()+": "+c.Incomplete)
		}
		symbolic := false
		for l, a := range c.Asserts {
			base := l
			if i := strings.IndexByte(l, '['); i >= 0 {
				base = l[:i]
			}
			agg := asserts[base]
			if agg == nil {
				agg = &sym.AssertAgg{}
				asserts[base] = agg
			}
			agg.Paths += a.Paths
			agg.Holds += a.Holds
			agg.Violated += a.Violated
			agg.Unknown += a.Unknown
			agg.Trivial += a.Trivial
			if a.Holds+a.Violated > 0 {
				symbolic = true
			}
		}
		if symbolic || c.Certs > 0 {
			nontrivial++
		}
		for l, n := range c.ReachSeen {
			if c.ReachSat[l] == 0 && n > 0 {
				reachVacuous = append(reachVacuous, c.Spec.ID()+": reach "+l+" never satisfiable")
			}
		}
		if len(c.ReachSeen) == 0 && c.Incomplete == "" && c.Outcomes[sym.ODone] > 0 && !r.grid.noReach {
			reachVacuous = append(reachVacuous, c.Spec.ID()+": no Reach point executed")
		}
		for f := range c.Funcs {
			funcs[f] = true
		}
		for s := range c.Stubs {
			stubs[s] = true
		}
		certs += c.Certs
		certIssued += c.CertIssued
		cEvents += c.CertEvents
		cEdges += c.CertEdges
		cPairs += c.CertPairs
		for _, n := range c.CertNotes {
			certNotes[n]++
		}
		for k, n := range c.KnownHeld {
			knownHeld[k] += n
		}
		viols = append(viols, c.Violations...)
	}
	incomplete = append(incomplete, reachVacuous...)

	// ---- replay ----
	replDir := filepath.Join(verifDir, "replays", r.opt.prop)
	knownDir := filepath.Join(verifDir, "replays", "known", r.opt.prop)
	var outs []violOut
	replays := 0
	knownSeen := map[string]*violOut{} // id -> first reproduced
	knownTried := map[string]int{}
	newTried := 0
	exit := 0
	var lines []string
	sort.Slice(viols, func(i, j int) bool {
		// smaller cases first: nicer witnesses
		a, b := viols[i], viols[j]
		if len(a.Model) != len(b.Model) {
			return len(a.Model) < len(b.Model)
		}
		return a.Case.ID()+a.Label < b.Case.ID()+b.Label
	})
	for _, v := range viols {
		vo := violOut{V: v}
		_, listed := r.known[v.Known]
		if v.Known != "" && listed && r.known[v.Known].Property == r.opt.prop {
			if knownSeen[v.Known] != nil || knownTried[v.Known] >= 3 {
				vo.Reproduced = "skipped"
				outs = append(outs, vo)
				continue
			}
			knownTried[v.Known]++
			path, err := r.writeReplay(v, knownDir)
			vo.Replay = path
			if err != nil {
				vo.Reproduced, vo.Note = "error", err.Error()
				outs = append(outs, vo)
				continue
			}
			ro, err := runReplay(path)
			replays++
			if err != nil {
				vo.Reproduced, vo.Note = "error", err.Error()
			} else if ro.Reproduced {
				vo.Reproduced = "reproduced"
				knownSeen[v.Known] = &vo
			} else {
				vo.Reproduced = "not"
				vo.Note = "outcome=" + ro.Outcome + " fails=" + strings.Join(ro.Fails, ",")
			}
			outs = append(outs, vo)
			continue
		}
		// unlisted violation
		if newTried >= 6 {
			vo.Reproduced = "skipped"
			outs = append(outs, vo)
			continue
		}
		newTried++
		path, err := r.writeReplay(v, replDir)
		vo.Replay = path
		if err != nil {
			vo.Reproduced, vo.Note = "error", err.Error()
			outs = append(outs, vo)
			continue
		}
		ro, err := runReplay(path)
		replays++
		switch {
		case err != nil:
			vo.Reproduced, vo.Note = "error", err.Error()
			incomplete = append(incomplete, v.Case.ID()+": replay failed to run: "+err.Error())
		case ro.Reproduced:
			vo.Reproduced = "reproduced"
			exit = 1
			lines = append(lines, fmt.Sprintf("VIOLATION property=%s replay=%s", r.opt.prop, path))
			lines = append(lines, fmt.Sprintf("  case %s kind=%s label=%s %s", v.Case.ID(), v.Kind, v.Label, v.Detail))
		default:
			vo.Reproduced = "not"
			vo.Note = "outcome=" + ro.Outcome + " fails=" + strings.Join(ro.Fails, ",")
			incomplete = append(incomplete, fmt.Sprintf("%s: counterexample for %s did not reproduce natively (%s) — unconfirmed", v.Case.ID(), v.Label, vo.Note))
			os.Remove(path)
		}
		outs = append(outs, vo)
	}
	for _, id := range sortedKeys(knownSeen) {
		vo := knownSeen[id]
		lines = append(lines, fmt.Sprintf("KNOWN-FINDING: property=%s %s: %s [witness %s %s]", r.opt.prop, id, r.known[id].What, vo.V.Case.ID(), vo.V.Label))
	}
	for id, n := range knownTried {
		if knownSeen[id] == nil && n > 0 {
			incomplete = append(incomplete, "known finding "+id+": solver counterexamples did not reproduce natively")
		}
	}
	// known findings of this property that no longer fail anywhere: informational
	var stale []string
	for id, kf := range r.known {
		if kf.Property != r.opt.prop {
			continue
		}
		if knownSeen[id] == nil && knownTried[id] == 0 {
			stale = append(stale, id)
		}
	}
	sort.Strings(stale)
	for _, l := range lines {
		fmt.Println(l)
	}

	// ---- translator validation: engine (concrete mode) vs native run on solver-chosen inputs ----
	tvRuns, tvObs, tvMismatch := r.validateTranslator(p, &incomplete)
	replays += tvRuns

	// ---- evidence ----
	var samples []interface{}
	for i, c := range r.results {
		if i%imax(1, len(r.results)/8) == 0 && len(samples) < 10 {
			a := map[string]interface{}{}
			for l, g := range c.Asserts {
				a[l] = fmt.Sprintf("paths=%d unsat(holds)=%d sat(violated)=%d trivial=%d", g.Paths, g.Holds, g.Violated, g.Trivial)
			}
			samples = append(samples, map[string]interface{}{
				"case": c.Spec.ID(), "mode": modeOf(c.Spec), "paths": c.Paths, "ssa_steps": c.Steps,
				"outcomes": c.Outcomes, "assertions": a, "symbolic_inputs": c.Nondet,
				"queries": c.Stats.Queries, "wall_s": round3(c.Wall.Seconds()),
				"certificate": fmt.Sprintf("%d/%d issued, %d pairs", c.CertIssued, c.Certs, c.CertPairs),
			})
		}
	}
	for _, vo := range outs {
		if len(samples) > 16 {
			break
		}
		if vo.Reproduced == "reproduced" {
			samples = append(samples, map[string]interface{}{"violation_case": vo.V.Case.ID(), "kind": vo.V.Kind, "label": vo.V.Label, "model": vo.V.Model, "known": vo.V.Known, "replay": vo.Replay})
		}
	}
	assertSummary := map[string]interface{}{}
	for l, g := range asserts {
		assertSummary[l] = map[string]int{"path_checks": g.Paths, "unsat_holds": g.Holds, "sat_violated": g.Violated, "unknown": g.Unknown, "decided_by_constant_folding": g.Trivial}
	}
	var fl []string
	for f := range funcs {
		if strings.Contains(f, "cinar/indicator") {
			fl = append(fl, strings.ReplaceAll(f, "github.com/cinar/indicator/v2/", ""))
		}
	}
	sort.Strings(fl)
	violN := 0
	knownN := 0
	for _, vo := range outs {
		if vo.Reproduced == "reproduced" {
			if _, listed := r.known[vo.V.Known]; vo.V.Known != "" && listed {
				knownN++
			} else {
				violN++
			}
		}
	}
	sort.Strings(incomplete)
	cov := map[string]interface{}{
		"states":                               imax(paths, 1),
		"transitions":                          imax(steps, 1),
		"traces_validated_against_impl":        replays,
		"samples":                              samples,
		"exhaustive":                           false,
		"explanation":                          r.grid.explain,
		"cases":                                len(r.results),
		"cases_with_solver_decided_assertions": nontrivial,
		"bounds":                               r.grid.bounds(r.opt.tier),
		"outside_bounds":                       r.grid.outside,
		"functions_encoded":                    fl,
		"functions_encoded_count":              len(fl),
		"outcomes":                             outcomes,
		"assertions":                           assertSummary,
		"queries": map[string]interface{}{"total": stats.Queries, "unsat": stats.Unsat, "sat": stats.Sat, "unknown": stats.Unknown,
			"error_lines": stats.Errors, "portfolio_fallbacks": stats.Fallback, "by_solver": stats.BySolver,
			"cross_checked": stats.CrossChecked, "cross_disagreements": stats.CrossDisagree},
		"solver_time_s":               round3(stats.Time.Seconds()),
		"ssa_load_s":                  round3(r.loadT.Seconds()),
		"branch_merges":               merges,
		"merge_aborts":                mergeAborts,
		"implicit_side_conditions":    sideConds,
		"certificates":                map[string]interface{}{"runs": certs, "issued": certIssued, "events": cEvents, "edges": cEdges, "conflict_pairs": cPairs, "notes": certNotes},
		"incomplete_cases":            incomplete,
		"stubs":                       sortedKeys(stubs),
		"known_findings_reproduced":   sortedKeys(knownSeen),
		"known_findings_not_observed": stale,
		"known_finding_sites_holding": knownHeld,
		"module_has_select":           p.HasSelect,
		"translator_validation":       map[string]int{"cases_run_natively_and_in_concrete_mode": tvRuns, "observed_values_compared": tvObs, "mismatches": tvMismatch},
		"engine_selftests":            fmt.Sprintf("%d/%d planted defects detected", selfOK, selfN),
	}
	ev := map[string]interface{}{
		"property_id": r.opt.prop,
		"tier":        r.opt.tier,
		"seed":        r.opt.seed,
		"level":       "model_checking",
		"coverage":    cov,
		"assumptions": r.grid.assumptions,
		"wall_s":      round3(wall.Seconds()),
		"violations":  violN,
	}
	b, _ := json.MarshalIndent(ev, "", " ")
	os.MkdirAll(filepath.Join(verifDir, "evidence"), 0o755)
	os.WriteFile(filepath.Join(verifDir, "evidence", r.opt.prop+".json"), b, 0o644)

	fmt.Printf("%s %s: cases=%d paths=%d queries=%d (unsat=%d sat=%d unknown=%d) solver=%.1fs wall=%.1fs violations=%d known=%d incomplete=%d\n",
		r.opt.prop, r.opt.tier, len(r.results), paths, stats.Queries, stats.Unsat, stats.Sat, stats.Unknown, stats.Time.Seconds(), wall.Seconds(), violN, len(knownSeen), len(incomplete))
	if len(incomplete) > 0 {
		n := len(incomplete)
		if n > 12 && !r.opt.verbose {
			n = 12
		}
		for _, s := range incomplete[:n] {
			fmt.Println("  INCOMPLETE:", s)
		}
		if n < len(incomplete) {
			fmt.Printf("  … %d more (see evidence)\n", len(incomplete)-n)
		}
	}
	return exit
}

func writeFailureEvidence(opt options, why string, wall time.Duration) {
	ev := map[string]interface{}{
		"property_id": opt.prop, "tier": opt.tier, "seed": opt.seed, "level": "other",
		"coverage": map[string]interface{}{"explanation": "check could not run: " + why, "evaluations": 0, "distinct_nontrivial": 0},
		"wall_s":   round3(wall.Seconds()), "violations": 0,
	}
	b, _ := json.MarshalIndent(ev, "", " ")
	os.MkdirAll(filepath.Join(verifDir, "evidence"), 0o755)
	os.WriteFile(filepath.Join(verifDir, "evidence", opt.prop+".json"), b, 0o644)
}

func round3(f float64) float64 { return float64(int64(f*1000+0.5)) / 1000 }

func imax(a, b int) int {
	if a > b {
		return a
	}
	return b
}

// validateTranslator replays a sample of cases under a solver-chosen model of
// their path condition both in the executor's concrete mode and natively, and
// compares the observed left operands of every assertion.
func (r *report) validateTranslator(p *sym.Program, incomplete *[]string) (runs, obs, mismatches int) {
	var cands []*sym.CaseResult
	for _, c := range r.results {
		if c.SampleModel != nil && len(c.Violations) == 0 && c.Incomplete == "" && !strings.HasPrefix(c.Spec.Tag, "self:") {
			cands = append(cands, c)
		}
	}
	if len(cands) == 0 {
		return
	}
	max := 6
	if r.opt.tier == "thorough" {
		max = 24
	}
	if r.grid.validateN > max {
		max = r.grid.validateN
	}
	step := len(cands) / max
	if step == 0 {
		step = 1
	}
	sol, err := sym.NewSolver(r.opt.timeoutMs)
	if err != nil {
		return
	}
	defer sol.Close()
	dir := filepath.Join(verifDir, "replays", "tmp")
	os.MkdirAll(dir, 0o755)
	for i := 0; i < len(cands) && runs < max; i += step {
		c := cands[i]
		eobs, out, detail := sym.RunConcrete(p, sol, c.Spec, c.SampleModel)
		if out != sym.ODone {
			*incomplete = append(*incomplete, fmt.Sprintf("translator validation: concrete run of %s ended %s %s", c.Spec.ID(), out, detail))
			continue
		}
		rf := replayFile{Property: r.opt.prop, Harness: c.Spec.Harness, Name: c.Spec.Name, Package: c.Spec.Pkg, Params: c.Spec.Params,
			Mode: modeOf(c.Spec), Assignment: c.SampleModel, Expect: replayExpect{Kind: "observe"}}
		path := filepath.Join(dir, sanitize(c.Spec.ID())+"-observe.json")
		b, _ := json.MarshalIndent(rf, "", " ")
		os.WriteFile(path, b, 0o644)
		ro, err := runReplay(path)
		os.Remove(path)
		if err != nil || ro.Outcome != "done" {
			*incomplete = append(*incomplete, fmt.Sprintf("translator validation: native run of %s failed", c.Spec.ID()))
			continue
		}
		runs++
		var nobs [][2]string
		for _, l := range strings.Split(ro.Raw, "\n") {
			l = strings.TrimSpace(l)
			if strings.HasPrefix(l, "VRT-OBS ") {
				body := strings.TrimPrefix(l, "VRT-OBS ")
				if k := strings.LastIndex(body, " "); k > 0 { // labels may contain spaces (column names)
					nobs = append(nobs, [2]string{body[:k], body[k+1:]})
				}
			}
		}
		bad := ""
		if len(nobs) != len(eobs) {
			bad = fmt.Sprintf("%d observations natively, %d in the executor", len(nobs), len(eobs))
		}
		for k := 0; k < len(nobs) && k < len(eobs) && bad == ""; k++ {
			obs++
			if nobs[k][0] != eobs[k].Label {
				bad = fmt.Sprintf("observation %d: label %s vs %s", k, nobs[k][0], eobs[k].Label)
			} else if !sameObs(nobs[k][1], eobs[k].Val) {
				bad = fmt.Sprintf("%s: native %s, executor %s", eobs[k].Label, nobs[k][1], eobs[k].Val)
			}
		}
		if bad != "" {
			mismatches++
			*incomplete = append(*incomplete, "TRANSLATOR VALIDATION MISMATCH "+c.Spec.ID()+": "+bad)
		}
	}
	return
}

func sameObs(a, b string) bool {
	if a == b {
		return true
	}
	x, e1 := strconv.ParseFloat(a, 64)
	y, e2 := strconv.ParseFloat(b, 64)
	if e1 != nil || e2 != nil {
		return false
	}
	if x != x && y != y {
		return true
	}
	d := x - y
	if d < 0 {
		d = -d
	}
	m := 1.0
	for _, v := range []float64{x, y} {
		if v < 0 {
			v = -v
		}
		if v > m {
			m = v
		}
	}
	return d <= 1e-6*m
}
