package main

import "verif/engine/sym"

func init() {
	grids["C19"] = &gridDef{
		explain: "REDUCED SCOPE. The repository's own control flow and index arithmetic in Csv.ReadFromReader / ReadFromFile, JSONToChanWithLogger and TiingoRepository.GetSince run over nondeterministic stubs of the standard parsers and of the HTTP client: every outcome of encoding/csv.Reader.Read (record of the first record's width / unconvertible value / parse error / record of another width with the field-count error that Reader.FieldsPerRecord prescribes / EOF), of json.Decoder.Token/More/Decode, of http.Client.Do (transport failure, ANY status code 200..599 as a symbolic integer) and of os.Open is a symbolic choice explored by forking (feasibility decided by the solver); reflection over the row struct is answered by a go/types model. Checked on every path: no panic, the stream delivers exactly the records of the well-formed prefix in order and is closed, no goroutine is left, non-2xx statuses / transport failures / unreadable files yield errors. Native replays feed REAL text / a real HTTP test server built from the same plan through the real parsers",
		bounds: func(t string) string {
			if t == "thorough" {
				return "row structs with 1..3 fields, header absent / in order / missing a column / permuted with an extra column, record widths 1..4, <= 4 records (5^4 outcome sequences), JSON arrays of <= 4 values, Tiingo bodies of <= 3 records"
			}
			return "row structs with 1..3 fields, four header shapes, record widths 1..4, <= 3 records, JSON arrays of <= 3 values, Tiingo bodies of <= 2 records"
		},
		validateN:   40, // the stub contracts are cross-checked against the real parsers on many plans
		outside:     "1xx informational statuses (the HTTP client consumes them), byte-level parsing inside encoding/csv and encoding/json (\"arbitrary bytes\": only the parsers' documented outcomes are quantified over), real sockets in the symbolic run, TiingoRepository.LastDate (io.ReadAll / json.Unmarshal), struct fields of kinds other than string and int, longer inputs",
		assumptions: append([]string{"stub contracts: csv.Reader.Read follows the documented FieldsPerRecord contract (0: first record's count; >0: that count; <0: unchecked; a record of another width comes with an error), or returns a parse error or io.EOF; json.Decoder and http.Client outcomes as enumerated; helper.setReflectValue fails exactly on the planted unconvertible value", "reflect.TypeOf/ValueOf/Type.Elem/Kind/NumField/Field/StructTag.Lookup/Value.Elem/Field are answered from go/types"}, commonAssumptions...),
		cases: func(tier string, pr *prober) []sym.CaseSpec {
			maxRec, maxVals, tiingo := 3, 3, 2
			if tier == "thorough" {
				maxRec, maxVals, tiingo = 4, 4, 3
			}
			out := selfTests()
			for shape := 1; shape <= 3; shape++ {
				for hdr := 0; hdr <= 3; hdr++ {
					for nrec := 0; nrec <= maxRec; nrec++ {
						for nf := 1; nf <= 4; nf++ {
							if hdr != 0 && nf != 1 {
								continue // with a header the record width is the header's
							}
							c := cs("H_C19_Csv", shape, hdr, nrec, nf)
							c.Cert, c.TrackMem = true, true
							c.Weight = pow3(nrec) * (1 + nrec)
							c.MaxPaths = 20000
							out = append(out, c)
						}
					}
				}
			}
			for n := 0; n <= maxVals; n++ {
				c := cs("H_C19_Json", n)
				c.Cert, c.TrackMem = true, true
				c.Weight = 9 << uint(n)
				out = append(out, c)
			}
			for n := 0; n <= tiingo; n++ {
				c := cs("H_C19_Tiingo", n)
				c.Weight = 100 << uint(n)
				c.MaxPaths = 20000
				out = append(out, c)
			}
			for n := 1; n <= maxVals; n++ {
				c := cs("H_C19_JsonStruct", n)
				c.Cert, c.TrackMem = true, true
				out = append(out, c)
			}
			out = append(out, cs("H_C19_ReadFromFile"))
			return out
		},
	}
}
