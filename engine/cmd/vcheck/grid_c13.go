package main

import "verif/engine/sym"

func init() {
	grids["C13"] = &gridDef{
		explain: "(1) rankings: the real HTMLReport Begin/AssetBegin/Write/AssetEnd/End run with arbitrary (symbolic) final outcomes through the real slices.SortFunc and comparator; the solver decides whether the entry recorded as best can be below another result of its asset and whether the overall list can be out of order; (2) protocol and completeness: Backtest.Run over an in-memory repository with symbolic dates, a symbolic 'now', stub strategies replaying symbolic action words and a recording report, one worker: notification order, one Write per (asset, strategy), written actions/outcomes equal to a direct ComputeWithOutcome on the look-back window; (3) two workers with both bundled reports: results equal the one-worker results on the explored job assignment and the certificate over memory cells reports data races",
		bounds: func(t string) string {
			if t == "thorough" {
				return "rankings: <= 3 assets x <= 4 results; protocol: <= 3 assets, <= 3 snapshots, <= 2 strategies; workers 1..2 (3 in one configuration); worker / asset shapes (1,3) (2,4) (3,2) (1,4) (5,4) (4,3) (3,5) with one strategy and one snapshot; assets without snapshots"
			}
			return "rankings: <= 3 assets x <= 3 results; protocol: <= 2 assets, <= 3 snapshots, <= 2 strategies; workers 1..2; asset / worker shapes (1 asset, 3 workers), (2,4), (3,2) with one strategy and one snapshot; assets without snapshots"
		},
		outside:     "HTML rendering and file output (text/template, os: stubbed symbolically, real in the native replay), more than two workers beyond one configuration, job assignments other than those produced by the executor's three scheduling policies for Workers >= 2 (the certificate is not issued there), strategy reports written per strategy (WriteStrategyReports=false), cmd/indicator-backtest",
		assumptions: append([]string{"day-number model of time.Time with a symbolic 'now'", realModeNote}, commonAssumptions...),
		cases: func(tier string, pr *prober) []sym.CaseSpec {
			out := selfTests()
			maxK, maxA := 3, 2
			if tier == "thorough" {
				maxK, maxA = 4, 3
			}
			for na := 1; na <= 3; na++ {
				for k := 1; k <= maxK; k++ {
					if na*k > 9 {
						continue
					}
					c := cs("H_C13_Rank", na, k)
					c.Weight = 100 * na * k
					c.MaxPaths = 50000
					out = append(out, c)
				}
			}
			for na := 1; na <= maxA; na++ {
				for ns := 0; ns <= 3; ns++ {
					for nst := 1; nst <= 2; nst++ {
						for ex := 0; ex <= 1; ex++ {
							c := cs("H_C13_Protocol", na, ns, nst, ex)
							c.Cert, c.TrackMem = true, true
							c.MaxPaths = 20000
							out = append(out, c)
						}
					}
				}
			}
			for na := 1; na <= maxA; na++ {
				for nst := 1; nst <= 2; nst++ {
					for w := 1; w <= 2; w++ {
						for html := 0; html <= 1; html++ {
							for sched := 0; sched <= 2; sched++ {
								if w == 1 && sched > 0 {
									continue
								}
								c := cs("H_C13_Workers", na, 2, nst, w, html)
								c.Cert, c.TrackMem = true, true
								c.Sched = sched
								out = append(out, c)
							}
						}
					}
				}
			}
			// more workers than assets, and asset / worker counts that do not divide
			// evenly (work distribution arithmetic): data report, one strategy
			type aw struct{ na, w int }
			shapes := []aw{{1, 3}, {2, 4}, {3, 2}}
			if tier == "thorough" {
				shapes = append(shapes, aw{1, 4}, aw{5, 4}, aw{4, 3}, aw{3, 5})
			}
			for _, x := range shapes {
				c := cs("H_C13_Workers", x.na, 1, 1, x.w, 0)
				c.Cert, c.TrackMem = true, true
				out = append(out, c)
			}
			// an undeliverable asset between regular ones
			for na := 1; na <= 2; na++ {
				for pos := 0; pos <= na; pos++ {
					c := cs("H_C13_ProtocolMissing", na, 2, pos)
					c.Cert, c.TrackMem = true, true
					out = append(out, c)
				}
			}
			// assets without a single snapshot in the look-back window (stale / empty)
			for na := 1; na <= 2; na++ {
				for w := 1; w <= 2; w++ {
					for html := 0; html <= 1; html++ {
						c := cs("H_C13_Workers", na, 0, 1, w, html)
						c.Cert, c.TrackMem = true, true
						out = append(out, c)
					}
				}
			}
			if tier == "thorough" {
				c := cs("H_C13_Workers", 3, 2, 2, 3, 0)
				c.Cert, c.TrackMem = true, true
				out = append(out, c)
			}
			return out
		},
	}
}
