package main

import (
	"verif/engine/sym"
)

// gridDef describes the case grid of one property.
type gridDef struct {
	cases       func(tier string, pr *prober) []sym.CaseSpec
	explain     string
	bounds      func(tier string) string
	outside     string
	assumptions []string
	noReach     bool
	validateN   int // translator-validation sample size override (0 = default)
}

var grids = map[string]*gridDef{}

func cs(h string, params ...int) sym.CaseSpec {
	return sym.CaseSpec{Pkg: hPkg, Harness: h, Params: params}
}

const realModeNote = "floats are exact reals (real mode): decides the algebraic content of the property; rounding, overflow to ±Inf and NaN are outside the claim; inputs on which an executed float division has a zero denominator are outside the claim (den ≠ 0 is conjoined to the path condition), except in cases named ...@zeroden<N>: there up to N divisions per path may have a zero denominator (decided by forking) and yield the concrete IEEE 754 special value (+Inf / -Inf / NaN by the sign of the numerator), which later operations treat as IEEE 754 prescribes; value equalities with a special operand stay exempt, counts / control flow / termination are decided"

var commonAssumptions = []string{
	"go/ssa (x/tools v0.29.0) is a faithful IR of /repo's source",
	"the executor's Go semantics (validated by native replay of every counterexample and by differential runs)",
	"z3 4.8.12 verdicts (portfolio fallback cvc5 1.0 / z3 5.1; sampled cross-checks)",
}

// selfTests are run with the concurrency checks: planted defects the engine must report.
func selfTests() []sym.CaseSpec {
	mk := func(h, want string) sym.CaseSpec {
		return sym.CaseSpec{Pkg: hPkg, Harness: h, Tag: "self:" + want, Cert: true, TrackMem: true}
	}
	return []sym.CaseSpec{mk("H_Self_Race", "race"), mk("H_Self_TwoReaders", "nocert"), mk("H_Self_Leak", "leak"),
		mk("H_Self_Deadlock", "deadlock"), mk("H_Self_Violation", "assert")}
}
