package main

import (
	"strings"

	"verif/engine/sym"
)

// stratSpec: how the grids configure one entry of the harness strategy table.
type stratSpec struct {
	name   string
	cfgs   [][3]int
	heavy  bool // forks on window orderings
	vol    bool // reads volume
	nonlin bool
	noDflt bool // default configuration too heavy for the quick tier
	noRule bool // compound / decorator over real strategies: decision function is C07's subject
}

var stratSpecs = []stratSpec{
	{name: "Macd", cfgs: [][3]int{{1, 2, 2}, {2, 3, 2}, {1, 2, 3}}},
	{name: "Rsi", cfgs: [][3]int{{2, 0, 0}, {3, 0, 0}}, nonlin: true},
	{name: "RsiT", cfgs: [][3]int{{2, 0, 0}}, nonlin: true}, // thresholds 60 / 80 (both above the neutral 50)
	{name: "AwesomeOscillator", cfgs: [][3]int{{1, 2, 0}, {2, 3, 0}}},
	{name: "StochasticRsi", cfgs: [][3]int{{2, 2, 0}, {3, 2, 0}}, heavy: true, nonlin: true, noDflt: true},
	{name: "TripleRsi", cfgs: [][3]int{{2, 3, 2}, {2, 4, 3}}, nonlin: true, noDflt: true},
	{name: "BollingerBands", cfgs: [][3]int{{2, 0, 0}, {3, 0, 0}}, nonlin: true},
	{name: "SuperTrend", cfgs: [][3]int{{1, 0, 0}, {4, 0, 0}}, nonlin: true, noDflt: true},
	{name: "ChaikinMoneyFlow", cfgs: [][3]int{{2, 0, 0}, {3, 0, 0}}, vol: true},
	{name: "EaseOfMovement", cfgs: [][3]int{{1, 0, 0}, {2, 0, 0}}, vol: true, nonlin: true},
	{name: "ForceIndex", cfgs: [][3]int{{1, 0, 0}, {2, 0, 0}}, vol: true},
	{name: "MoneyFlowIndex", cfgs: [][3]int{{1, 0, 0}, {2, 0, 0}}, vol: true, nonlin: true},
	{name: "NegativeVolumeIndex", cfgs: [][3]int{{1, 0, 0}, {2, 0, 0}}, vol: true, noDflt: true},
	{name: "WeightedAveragePrice", cfgs: [][3]int{{2, 0, 0}, {3, 0, 0}}, vol: true},
	{name: "BuyAndHold", cfgs: [][3]int{{0, 0, 0}}},
	{name: "MacdRsi", cfgs: [][3]int{{1, 2, 2}, {2, 3, 2}, {1, 1, 3}}, nonlin: true},
	{name: "Alligator", cfgs: [][3]int{{3, 2, 1}, {1, 3, 2}}},
	{name: "Apo", cfgs: [][3]int{{1, 2, 0}, {2, 3, 0}}},
	{name: "Aroon", cfgs: [][3]int{{2, 0, 0}, {3, 0, 0}}, heavy: true, noDflt: true},
	{name: "Bop", cfgs: [][3]int{{0, 0, 0}}},
	{name: "Cci", cfgs: [][3]int{{2, 0, 0}, {3, 0, 0}}},
	{name: "Dema", cfgs: [][3]int{{1, 2, 0}, {2, 3, 0}, {3, 1, 0}}},
	{name: "Envelope", cfgs: [][3]int{{2, 0, 0}, {3, 0, 0}}},
	{name: "GoldenCross", cfgs: [][3]int{{1, 2, 0}, {2, 3, 0}}, noDflt: true},
	{name: "Kama", cfgs: [][3]int{{2, 1, 3}, {1, 2, 3}}, nonlin: true},
	{name: "Kdj", cfgs: [][3]int{{2, 1, 2}, {2, 2, 1}}, heavy: true, noDflt: true},
	{name: "Qstick", cfgs: [][3]int{{2, 0, 0}, {3, 0, 0}}},
	{name: "Smma", cfgs: [][3]int{{1, 2, 0}, {2, 3, 0}}},
	{name: "Trima", cfgs: [][3]int{{1, 2, 0}, {2, 3, 0}}},
	{name: "TripleMovingAverageCrossover", cfgs: [][3]int{{1, 2, 3}, {2, 3, 3}, {3, 2, 4}}, noDflt: true},
	{name: "Trix", cfgs: [][3]int{{1, 0, 0}, {2, 0, 0}}, nonlin: true},
	{name: "Tsi", cfgs: [][3]int{{1, 2, 3}, {2, 3, 2}}, nonlin: true},
	{name: "Vwma", cfgs: [][3]int{{2, 0, 0}, {3, 0, 0}}, vol: true},
	{name: "WeightedClose", cfgs: [][3]int{{2, 0, 0}, {3, 0, 0}}},
	// compounds and decorators over the real MACD(cfg) and RSI(2) strategies
	{name: "CompAnd", cfgs: [][3]int{{1, 2, 2}, {2, 3, 2}}, noRule: true, noDflt: true},
	{name: "CompOr", cfgs: [][3]int{{1, 2, 2}, {2, 3, 2}}, noRule: true, noDflt: true},
	{name: "CompMajority", cfgs: [][3]int{{1, 2, 2}}, noRule: true, noDflt: true},
	{name: "CompSplit", cfgs: [][3]int{{1, 2, 2}, {2, 3, 2}}, noRule: true, noDflt: true},
	{name: "DecoInverse", cfgs: [][3]int{{1, 2, 2}}, noRule: true, noDflt: true},
	{name: "DecoNoLoss", cfgs: [][3]int{{1, 2, 2}, {2, 3, 2}}, noRule: true, noDflt: true},
	{name: "DecoStopLoss", cfgs: [][3]int{{1, 2, 2}, {2, 3, 2}}, noRule: true, noDflt: true},
}

func css(h string, s stratSpec, cfg [3]int, rest ...int) sym.CaseSpec {
	p := append([]int{cfg[0], cfg[1], cfg[2]}, rest...)
	c := sym.CaseSpec{Pkg: hPkg, Harness: h, Name: s.name, Params: p}
	w := 1
	for _, r := range rest {
		w += r
	}
	w *= 2 + cfg[0] + cfg[1] + cfg[2]
	if s.heavy {
		w *= 50
	}
	if s.nonlin {
		w *= 5
	}
	c.Weight = w
	c.MaxPaths = 6000
	return c
}

const stratBounds = "every strategy of the harness table (all bundled base strategies, MACD-RSI, and And/Or/Majority/Split/Inverse/No-Loss/Stop-Loss over the real MACD and RSI strategies) at 1-3 small period configurations (periods 1..4) and, where tractable, its default configuration"

func init() {
	grids["C05"] = &gridDef{
		explain: "the real Compute pipeline of each strategy runs on n symbolic valid snapshots; the warm-up w_s is the idle period its indicator declares (read from the real instance); the number of actions, their domain {Sell,Hold,Buy} (solver-decided on bit-vectors) and the Hold prefix are asserted for every n in [0, w_s+3], and for the default configuration at n in {0,1,w_s,w_s+1,w_s+2}",
		bounds: func(t string) string {
			return stratBounds + "; snapshot counts 0..w_s+3 (thorough: 0..w_s+5)"
		},
		outside:     "other period configurations, longer inputs; decorators and vote combinators are covered structurally in C07 (one action per position over arbitrary sub-streams)",
		assumptions: append([]string{realModeNote, "valid OHLCV snapshots (0 < low <= open, close <= high, volume >= 0)"}, commonAssumptions...),
		cases: func(tier string, pr *prober) []sym.CaseSpec {
			extra := 3
			if tier == "thorough" {
				extra = 5
			}
			var out []sym.CaseSpec
			for _, s := range stratSpecs {
				for ci, cfg := range s.cfgs {
					w, ok := pr.warm(s.name, cfg, 0)
					if !ok {
						continue
					}
					e := extra
					if s.heavy {
						e = 2
					}
					for n := 0; n <= w+e; n++ {
						out = append(out, css("H_C05", s, cfg, 0, n))
					}
					if !s.heavy {
						// one action per snapshot also when an indicator value is NaN / Inf (one zero denominator)
						c := css("H_C05", s, cfg, 0, w+2)
						c.ZeroDen = 1
						out = append(out, c)
					}
					if ci == 0 && !s.noRule {
						// the same strategy configured field by field on a default-constructed value
						sf := s
						sf.name += "F"
						for _, n := range []int{w, w + 1, w + 2} {
							out = append(out, css("H_C05", sf, cfg, 0, n))
						}
					}
				}
				if s.noDflt && tier != "thorough" || s.heavy {
					continue
				}
				w, ok := pr.warm(s.name, [3]int{}, 1)
				if !ok {
					continue
				}
				for _, n := range []int{0, 1, w, w + 1, w + 2} {
					c := css("H_C05", s, [3]int{}, 1, n)
					c.Weight = 100000
					c.MaxWallS = 300
					out = append(out, c)
				}
			}
			return out
		},
	}

	grids["C06"] = &gridDef{
		explain: "for each base strategy the action at every position i >= w_s must equal the documented decision rule applied to the values the real documented indicator takes on the documented snapshot fields (rule restated in the harness table; open, high, low, close, volume are independent symbolic values within validity); positions where the compared quantities are equal are exempt; MACD-RSI's combiner is checked over its real sub-strategies",
		bounds: func(t string) string {
			return stratBounds + " (small configurations only); n = w_s + 1..3 (thorough: ..5)"
		},
		outside:     "default (large) period configurations, longer inputs, non-default thresholds",
		assumptions: append([]string{realModeNote, "valid OHLCV snapshots", "oracle: Rule functions in harness/h/strat_*.go (DESIGN.md Appendix B); the indicator used by the oracle is the real one (its correctness is C01)"}, commonAssumptions...),
		cases: func(tier string, pr *prober) []sym.CaseSpec {
			dn := 3
			if tier == "thorough" {
				dn = 5
			}
			var out []sym.CaseSpec
			for _, s := range stratSpecs {
				if s.noRule {
					continue
				}
				for _, cfg := range s.cfgs {
					m := dn
					if s.heavy {
						m = 2
					}
					for d := 1; d <= m; d++ {
						c := css("H_C06", s, cfg, d)
						c.WantModel = d == 2
						out = append(out, c)
					}
				}
			}
			return out
		},
	}

	grids["C14"] = &gridDef{
		explain:     "the real Report pipeline of each strategy runs on n symbolic snapshots with distinct dates; the date stream and the stream behind every column are drained concurrently; every column must supply exactly one value per date row and be closed afterwards, (second harness, H_C14_Value: the report is consumed as the report writer does it — per date row one Value() call per column, in lock-step behind a permit-gated tap — and every call must take exactly one value, no column may be exhausted early, none may have values left; zero-denominator variants (@zeroden1: one division per path may have a zero denominator and then yields the IEEE special value chosen by forking on the numerator sign) cover NaN / Inf values flowing into the columns), rows must be consecutive dates ending at the last snapshot, and the Close / annotation / Outcome (and stated indicator) columns must carry the values for their row's date",
		bounds:      func(t string) string { return stratBounds + " (small configurations); n = w_s + 1..2 (thorough: ..4); lock-step Value() harness: first configuration, n = w_s + 2 (and w_s + 3 with one zero denominator per path)" },
		outside:     "HTML rendering (text/template), default period configurations, the compound/decorator reports (same three generic columns; covered for And/Or/Majority/Split via C03)",
		assumptions: append([]string{realModeNote, "column streams are read through the unexported `values` field (executor: direct; native replay: reflect+unsafe)", "annotation strings are SMT strings"}, commonAssumptions...),
		cases: func(tier string, pr *prober) []sym.CaseSpec {
			dn := 2
			if tier == "thorough" {
				dn = 4
			}
			var out []sym.CaseSpec
			for _, s := range stratSpecs {
				for ci, cfg := range s.cfgs {
					m := dn
					if s.heavy {
						m = 1
						if ci > 0 && tier != "thorough" {
							continue
						}
					}
					for d := 1; d <= m; d++ {
						c := css("H_C14", s, cfg, d)
						if s.heavy {
							c.MaxWallS = 240
						}
						out = append(out, c)
					}
					if !s.heavy && ci == 0 {
						c := css("H_C14", s, cfg, 2)
						c.ZeroDen = 1
						out = append(out, c)
						// the report consumed the way the writer does it: one Value() per column per date row
						out = append(out, css("H_C14_Value", s, cfg, 2, 0))
						if !strings.HasPrefix(s.name, "Comp") || tier == "thorough" {
							c = css("H_C14_Value", s, cfg, 3, 0)
							c.ZeroDen = 1
							out = append(out, c)
						}
						if !s.noRule {
							sf := s
							sf.name += "F" // configured field by field on a default-constructed value
							out = append(out, css("H_C14", sf, cfg, 2))
						}
						c = css("H_C14_Value", s, cfg, 2, 1) // zero prices (missing quotes)
						c.ZeroDen = 1
						out = append(out, c)
					}
				}
			}
			return out
		},
	}

	grids["C04"] = &gridDef{
		explain: "one execution runs the real pipeline on the first m inputs and on all n inputs (same symbolic variables); the solver decides whether any output of the short run can differ from the same position of the long run; as the short run does not mention the later inputs this is exactly 'changing later inputs never changes earlier outputs'; a second form (H_C04_Tail / H_C04S_Tail) runs the pipeline on two equally long inputs that share their first m positions and have independent symbolic values afterwards, and asserts equality of every output that belongs to a position < m (a look-ahead pipeline that merely emits fewer values when its input ends early passes the first form but not this one)",
		bounds: func(t string) string {
			if t == "thorough" {
				return indBoundsT + "; every cut 1..dn; strategies: " + stratBounds
			}
			return indBoundsQ + " (dn 2..3, cuts 1..2; causality form dn 2 cut 1, dn 3 cut 2, not for the window-ordering-heavy entries); strategies: " + stratBounds + " (dn 2, cut 1; dn 3, cut 2; both forms, causality form not for heavy entries)"
		},
		outside:     "longer inputs, larger periods; compound/decorated strategies (their combinators are position-wise functions: C07)",
		assumptions: append([]string{realModeNote}, commonAssumptions...),
		cases: func(tier string, pr *prober) []sym.CaseSpec {
			o := indOpts(tier)
			var out []sym.CaseSpec
			for _, s := range indSpecs {
				mp, dn := s.lim(o)
				cfgs := s.configs(mp)
				if s.heavy && dn > 2 {
					dn = 2
				}
				for _, cfg := range cfgs {
					for d := 2; d <= dn; d++ {
						for cut := 1; cut <= d && cut <= 2; cut++ {
							if tier != "thorough" && s.nper == 3 && (d+cut)%2 == 1 {
								continue
							}
							out = append(out, csi("H_C04", s, cfg, d, cut))
						}
					}
					// causality form: two equally long inputs that differ only after position m
					if !s.heavy || tier == "thorough" {
						out = append(out, csi("H_C04_Tail", s, cfg, 2, 1))
					}
					if !s.heavy && dn >= 3 {
						out = append(out, csi("H_C04_Tail", s, cfg, 3, 2))
					}
				}
			}
			for _, s := range stratSpecs {
				for _, cfg := range s.cfgs {
					out = append(out, css("H_C04S", s, cfg, 2, 1))
					if !s.heavy || tier == "thorough" {
						out = append(out, css("H_C04S_Tail", s, cfg, 2, 1))
					}
					if !s.heavy {
						out = append(out, css("H_C04S", s, cfg, 3, 2))
						if !strings.HasPrefix(s.name, "Comp") || tier == "thorough" {
							out = append(out, css("H_C04S_Tail", s, cfg, 3, 2))
						}
					}
				}
			}
			return out
		},
	}

	grids["C18"] = &gridDef{
		explain: "one execution runs the real pipeline on a symbolic valid series and on the series with all prices (or all volumes) multiplied by 2 or 1/4; the solver decides whether an indicator output can differ from the original output times the factor to the tabulated homogeneity degree, and whether any strategy action can change",
		bounds: func(t string) string {
			if t == "thorough" {
				return indBoundsT + " (n = w + 1..3); factors 2 and 1/4 on prices, and on volumes where a volume stream exists; strategies: " + stratBounds
			}
			return indBoundsQ + " (n = w + 1..2); factors 2 and 1/4; strategies: " + stratBounds + ", n = w_s + 2"
		},
		outside:     "other factors (powers of two make the native replay exact), longer inputs, floating-point rounding for non-power-of-two factors",
		assumptions: append([]string{realModeNote, "degrees: Deg column of the harness table (DESIGN.md Appendix A)"}, commonAssumptions...),
		cases: func(tier string, pr *prober) []sym.CaseSpec {
			o := indOpts(tier)
			var out []sym.CaseSpec
			for _, s := range indSpecs {
				mp, dn := s.lim(o)
				if dn > 2 && tier != "thorough" {
					dn = 2
				}
				if dn > 3 {
					dn = 3
				}
				if s.nonlin {
					if mp > 2 {
						mp = 2
					}
					dn = 1
					if tier == "thorough" {
						dn = 2
					}
				}
				for _, cfg := range s.configs(mp) {
					if s.heavy && s.nper == 3 && cfg[0]+cfg[1]+cfg[2] >= 6 && tier != "thorough" {
						continue
					}
					for d := 1; d <= dn; d++ {
						for which := 0; which <= 3; which++ {
							if which >= 2 && !hasVolume(s.name) {
								continue
							}
							if tier != "thorough" && (which == 1 || which == 3) && d > 1 {
								continue
							}
							out = append(out, csi("H_C18", s, cfg, d, which))
						}
					}
				}
			}
			for kind := 4; kind <= 6; kind++ {
				for n := 1; n <= 4; n++ {
					for which := 0; which <= 1; which++ {
						out = append(out, cs("H_C18_Deco", kind, n, which))
					}
				}
			}
			for _, s := range stratSpecs {
				for ci, cfg := range s.cfgs {
					if s.nonlin && ci > 0 && tier != "thorough" {
						if s.name == "MoneyFlowIndex" {
							// a period of one is degenerate for a ratio of windowed sums: the quick
							// tier also scales prices (x2) and volumes (x2) at period two
							for _, which := range []int{0, 2} {
								c := css("H_C18S", s, cfg, 1, which)
								c.MaxWallS = 240
								out = append(out, c)
							}
						}
						continue
					}
					if s.name == "Tsi" && tier != "thorough" {
						continue // ratio of doubly smoothed sums: beyond the quick time-out
					}
					for which := 0; which <= 3; which++ {
						if which >= 2 && !s.vol {
							continue
						}
						d := 2
						if s.nonlin || s.heavy {
							d = 1
						}
						c := css("H_C18S", s, cfg, d, which)
						c.MaxWallS = 180
						out = append(out, c)
					}
				}
			}
			return out
		},
	}
}

func hasVolume(name string) bool {
	switch name {
	case "ChaikinOscillator", "Pvo", "Mfv", "Ad", "Cmf", "Emv", "Fi", "Mfi", "Nvi", "Obv", "Vpt", "Vwap", "Vwma":
		return true
	}
	return false
}

func init() {
	grids["C03"] = &gridDef{
		explain: "every indicator and strategy pipeline (and the Report pipelines, and the vote combinators over stub strategies) is executed with one producer goroutine per input (channel capacity a grid parameter), one independent reader per output; on every data path the run must end with all outputs closed and no goroutine left (outcome done; deadlock / leak / panic are violations with a native replay); the executor logs every channel operation, close, go, WaitGroup operation and shared-memory access with the Go-memory-model edges and the solver (QF_IDL) shows that no conflicting pair can be reordered: the outcome and all values then hold for every interleaving, GOMAXPROCS and pacing (first-divergence lemma, DESIGN.md 2.6)",
		bounds: func(t string) string {
			if t == "thorough" {
				return indBoundsT + "; n in {0,1,w-1,w,w+1,w+2,w+3}; input capacity 0,2 (1 and 5 too for the first two configurations of each entry); unequal input lengths n-1/n/n+1 for multi-input indicators; strategies: " + stratBounds + " incl. default configurations; combinators over 2-3 stubs emitting n-1/n/n+1 actions; one @zeroden1 case (n = w+2: one division per path may have a zero denominator, the value is then the IEEE special) per non-heavy indicator / strategy; one late-producer case (pipeline assembled before any producer exists) per indicator / strategy configuration; for the widely separated periods also input capacities maxPeriod-1 and maxPeriod-3"
			}
			return indBoundsQ + "; n in {0,1,w,w+1,w+2}; input capacity 0,1,2; unequal input lengths for multi-input indicators; strategies: " + stratBounds + "; combinators over 2 stubs emitting n-1/n/n+1 actions; one @zeroden1 case (n = w+2: one division per path may have a zero denominator, the value is then the IEEE special) per non-heavy indicator / strategy; one late-producer case (pipeline assembled before any producer exists) per indicator / strategy configuration; for the widely separated periods also input capacities maxPeriod-1 and maxPeriod-3"
		},
		outside:     "consumers that abandon an output (the property presupposes draining); select/len(chan) (absent from the module, re-checked on every run: coverage.module_has_select); larger configurations",
		assumptions: append([]string{realModeNote, "lemma: a maximal execution without unordered conflicting pair determines every other execution (DPOR/Kahn first divergence); memory model edges: program order, go->start, send->receive, k-th receive -> (k+cap)-th send, close->receive-of-closed, Done->Wait, Unlock->Lock"}, commonAssumptions...),
		cases: func(tier string, pr *prober) []sym.CaseSpec {
			o := indOpts(tier)
			caps := []int{0, 1, 2}
			if tier == "thorough" {
				caps = []int{0, 1, 2, 5}
			}
			out := selfTests()
			add := func(c sym.CaseSpec) {
				c.Cert, c.TrackMem = true, true
				out = append(out, c)
			}
			for _, s := range indSpecs {
				// widely separated periods: buffer sizes that small grids cannot distinguish
				for _, cfg := range s.wideConfigs() {
					w, ok := pr.idle(s.name, cfg)
					if !ok {
						continue
					}
					for _, n := range []int{w + 2, w + 6} {
						c := csi("H_C03", s, cfg, n, 0, 0)
						c.SkipReach = true // no assumptions in this harness; the path condition only holds side conditions
						c.MaxWallS = 120
						add(c)
					}
					// input capacities just below the largest period: internal buffers are
					// derived from cap(c), so "enough room already" shortcuts show up there
					big := cfg[0]
					for _, p := range cfg[1:] {
						if p > big {
							big = p
						}
					}
					for _, cp := range []int{big - 1, big - 3} {
						if cp < 3 {
							continue
						}
						c := csi("H_C03", s, cfg, w+6, cp, 0)
						c.SkipReach = true
						c.MaxWallS = 120
						add(c)
					}
				}
				mp, _ := s.lim(o)
				for ci, cfg := range s.configs(mp) {
					w, ok := pr.idle(s.name, cfg)
					if !ok {
						continue
					}
					if ci == 0 {
						// the pipeline assembled before any producer exists
						add(csi("H_C03_Late", s, cfg, w+1))
					}
					if ci == 0 && !s.heavy {
						// the same pipeline when one executed division has a zero denominator (NaN / Inf values)
						c := csi("H_C03", s, cfg, w+2, 0, 0)
						c.ZeroDen = 1
						add(c)
					}
					ns := []int{0, 1, w, w + 1, w + 2}
					if tier == "thorough" {
						ns = append(ns, w-1, w+3)
					}
					seen := map[int]bool{}
					for _, n := range ns {
						if n < 0 || seen[n] || s.heavy && n > w+2 {
							continue
						}
						if s.heavy && s.nper == 3 && cfg[0]+cfg[1]+cfg[2] >= 6 && n > w+1 && tier != "thorough" {
							continue
						}
						seen[n] = true
						for _, c := range caps {
							if s.nper == 3 && c == 1 && tier != "thorough" {
								continue
							}
							if tier == "thorough" && ci > 1 && (c == 1 || c == 5) {
								continue // the full capacity range for the first two configurations only
							}
							add(csi("H_C03", s, cfg, n, c, 0))
						}
						if n == w+1 && !s.heavy && tier == "thorough" {
							// the same case under the other scheduling policies: the certificate says
							// the outcome cannot differ; this cross-checks the lemma's implementation
							for sched := 1; sched <= 2; sched++ {
								c := csi("H_C03", s, cfg, n, 0, 0)
								c.Sched = sched
								add(c)
							}
						}
						if s.nin > 1 {
							for sk := 1; sk <= 4; sk++ {
								if s.heavy && (sk > 2 || n > w+1) && tier != "thorough" {
									continue
								}
								add(csi("H_C03", s, cfg, n, 0, sk))
							}
						}
					}
				}
			}
			for _, s := range stratSpecs {
				for _, cfg := range s.cfgs {
					w, ok := pr.warm(s.name, cfg, 0)
					if !ok {
						continue
					}
					for _, n := range []int{0, 1, w, w + 1, w + 2} {
						if s.heavy && n > w+1 {
							continue
						}
						for _, c := range []int{0, 2} {
							add(css("H_C03S", s, cfg, 0, n, c))
						}
					}
					add(css("H_C03S_Late", s, cfg, w+1))
					add(css("H_C03S_Report", s, cfg, w+1, 0))
					if !s.heavy {
						add(css("H_C03S_Report", s, cfg, w+2, 1))
						// the same pipeline when an indicator value is NaN / Inf (one zero denominator)
						c := css("H_C03S", s, cfg, 0, w+2, 0)
						c.ZeroDen = 1
						add(c)
					}
				}
			}
			for kind := 0; kind <= 3; kind++ {
				for n := 0; n <= 3; n++ {
					for sk := 0; sk <= 4; sk++ {
						add(cs("H_C03_Comb", kind, 2, n, sk))
					}
				}
			}
			return out
		},
	}

	grids["C09"] = &gridDef{
		explain: "three checks per indicator / strategy: (1) every heap slot reachable from the instance is tagged before Compute and any store into a tagged slot during the call is a violation (instances hold configuration only); (2) a second Compute on the same instance with different symbolic inputs of a different length must equal, output by output, a Compute on a fresh instance (solver-decided equalities); (3) two Compute calls on one instance live at the same time: the partial-order certificate over all shared-memory accesses must find no unordered conflicting pair (data-race freedom for every interleaving) and the results must equal the fresh-instance ones",
		bounds: func(t string) string {
			if t == "thorough" {
				return indBoundsT + " (reuse with n = w+1 then w+2..3); strategies: " + stratBounds
			}
			return indBoundsQ + " (reuse with n = w+1 then w+2; concurrent calls with n = w+1); strategies: " + stratBounds
		},
		outside:     "more than two calls, Report reuse, backtest.Backtest (covered by C13); helper.Csv only for sequential reuse across documents with different headers (H_C09_Csv, over the virtual file system of C10)",
		assumptions: append([]string{realModeNote, "a data race is an unordered pair of accesses to one memory slot by two goroutines, at least one a write (Go memory model); replay of a race: native run under -race"}, commonAssumptions...),
		cases: func(tier string, pr *prober) []sym.CaseSpec {
			o := indOpts(tier)
			out := selfTests()
			for _, s := range indSpecs {
				mp, _ := s.lim(o)
				cfgs := s.configs(mp)
				for i, cfg := range cfgs {
					if tier != "thorough" && s.nper == 3 && i%2 == 1 {
						continue
					}
					c := csi("H_C09", s, cfg, 1, 2)
					if s.heavy {
						c = csi("H_C09", s, cfg, 1, 1)
						c.MaxPaths = 20000
					}
					out = append(out, c)
					if s.heavy {
						continue
					}
					cc := csi("H_C09_Conc", s, cfg, 1)
					cc.Cert, cc.TrackMem = true, true
					out = append(out, cc)
				}
			}
			out = append(out, decoReuseCases(tier)...)
			// a helper.Csv value reused for documents with different header rows
			for v := 0; v <= 3; v++ {
				out = append(out, cs("H_C09_Csv", v))
			}
			for _, s := range stratSpecs {
				for i, cfg := range s.cfgs {
					if i > 0 && tier != "thorough" {
						continue
					}
					if s.heavy {
						c := css("H_C09S", s, cfg, 1, 1)
						c.MaxPaths = 20000
						out = append(out, c)
						continue
					}
					out = append(out, css("H_C09S", s, cfg, 1, 2))
				}
			}
			return out
		},
	}
}

// decoReuseCases: compound / decorator instances are reused across Compute calls.
func decoReuseCases(tier string) []sym.CaseSpec {
	var out []sym.CaseSpec
	for kind := 0; kind <= 6; kind++ {
		pairs := [][2]int{{2, 3}, {3, 2}}
		if kind <= 3 {
			pairs = [][2]int{{1, 2}, {2, 1}}
			if tier == "thorough" {
				pairs = append(pairs, [2]int{2, 3})
			}
		} else if tier == "thorough" {
			pairs = append(pairs, [2]int{4, 5}, [2]int{5, 3})
		}
		for _, p := range pairs {
			c := cs("H_C09_Deco", kind, p[0], p[1])
			c.MaxPaths = 60000
			c.Weight = 500
			out = append(out, c)
		}
	}
	// two calls alive at the same time on one decorator instance, three scheduling policies
	for kind := 4; kind <= 6; kind++ {
		for _, n := range []int{2, 3} {
			for sched := 0; sched <= 2; sched++ {
				c := cs("H_C09_DecoConc", kind, n)
				c.Cert, c.TrackMem = true, true
				c.Sched = sched
				c.MaxPaths = 20000
				out = append(out, c)
			}
		}
	}
	return out
}
