package main

import "verif/engine/sym"

func init() {
	grids["C07"] = &gridDef{
		explain: "the real And/Or/Majority/Split/Inverse/NoLoss/StopLoss Compute pipelines run over stub strategies that replay symbolic action words (bit-vector actions constrained to {-1,0,1}) and symbolic positive closings / stop-loss percentage; the solver decides, per path, whether the emitted action can differ from the position-wise specification restated in the harness, and whether a No-Loss sell below the purchase close or a missed stop is possible",
		bounds: func(t string) string {
			if t == "thorough" {
				return "k<=4 wrapped strategies, n<=5 snapshots (k<=7 at n=1), (n<=6 for decorators), nestings NoLoss(StopLoss), Inverse(NoLoss), And(Or(x,y),z) with n<=4"
			}
			return "k<=3 wrapped strategies with k*n<=9, n<=4 snapshots; k<=7 at n=1 and k=4 at n<=2 for the vote thresholds; (n<=5 for decorators), nestings with n<=3"
		},
		outside:     "longer action words; MACD-RSI's combiner is checked over its real sub-strategies in C06 (its fields are concrete strategy types, so arbitrary words cannot be injected); stop-loss percentage outside [0,1)",
		assumptions: append([]string{realModeNote, "closings are positive reals; stop-loss percentage in [0,1)", "oracle: vote / decorator models in harness/h/c07_c08.go"}, commonAssumptions...),
		cases: func(tier string, pr *prober) []sym.CaseSpec {
			var out []sym.CaseSpec
			maxK, maxN, decN, nestN := 3, 4, 5, 3
			if tier == "thorough" {
				maxK, maxN, decN, nestN = 4, 5, 6, 4
			}
			for kind := 0; kind <= 2; kind++ {
				for k := 1; k <= maxK; k++ {
					for n := 0; n <= maxN; n++ {
						if k*n > 9 && tier != "thorough" || k*n > 16 {
							continue
						}
						c := cs("H_C07_Vote", kind, k, n)
						c.MaxPaths = 60000
						c.Weight = pow3(n) * k
						out = append(out, c)
					}
				}
			}
			// larger electorates at one or two positions: voting thresholds that depend on k
			// (plurality vs absolute majority differ from k = 4 on)
			for k := maxK + 1; k <= 7; k++ {
				for kind := 0; kind <= 2; kind++ {
					for n := 1; n <= 2; n++ {
						if n == 2 && (k > 4 || kind != 2) {
							continue
						}
						c := cs("H_C07_Vote", kind, k, n)
						c.MaxPaths = 60000
						c.Weight = pow3(n) * k
						out = append(out, c)
					}
				}
			}
			for n := 0; n <= decN; n++ {
				for _, h := range []string{"H_C07_Split", "H_C07_Inverse", "H_C07_NoLoss", "H_C07_StopLoss"} {
					c := cs(h, n)
					c.MaxPaths = 60000
					c.Weight = pow3(n)
					out = append(out, c)
				}
			}
			out = append(out, decoReuseCases(tier)...)
			for w := 0; w <= 2; w++ {
				for n := 1; n <= nestN; n++ {
					c := cs("H_C07_Nested", w, n)
					c.MaxPaths = 60000
					c.Weight = pow3(n) * 3
					out = append(out, c)
				}
			}
			return out
		},
	}
	grids["C08"] = &gridDef{
		explain: "strategy.Outcome, NormalizeActions, DenormalizeActions, CountTransactions and the buy-and-hold strategy run through their real channels on symbolic positive values and symbolic action words of unequal lengths; the solver decides equality with an independent cash/units portfolio model and the listed consequences (>= -100%, 0 until the first Buy, v_i/v_0-1 for buy-and-hold, invariance under normalisation, alternation, round trip)",
		bounds: func(t string) string {
			if t == "thorough" {
				return "stream lengths 0..11 (all unequal combinations within +-3), normalisation words up to 14"
			}
			return "stream lengths 0..8 (all unequal combinations within +-2), normalisation words up to 9"
		},
		outside:     "longer streams (no inductive argument is attempted), non-positive values, floating-point rounding",
		assumptions: append([]string{realModeNote, "values are positive reals", "oracle: portfolio(cash, units) model in harness/h/c07_c08.go"}, commonAssumptions...),
		cases: func(tier string, pr *prober) []sym.CaseSpec {
			var out []sym.CaseSpec
			maxN, d, normN := 8, 2, 9
			if tier == "thorough" {
				maxN, d, normN = 11, 3, 14
			}
			for nv := 0; nv <= maxN; nv++ {
				for na := nv - d; na <= nv+d; na++ {
					if na < 0 {
						continue
					}
					c := cs("H_C08_Outcome", nv, na)
					c.MaxPaths = 60000
					c.Weight = pow3(imin(nv, na))
					out = append(out, c)
				}
			}
			for n := 0; n <= maxN+1; n++ {
				out = append(out, cs("H_C08_BuyAndHold", n))
			}
			// the generic Outcome over an integer value type
			for n := 1; n <= 4; n++ {
				c := cs("H_C08_OutcomeInt", n)
				c.MaxPaths = 60000
				out = append(out, c)
			}
			for n := 0; n <= normN; n++ {
				c := cs("H_C08_Normalize", n)
				c.MaxPaths = 60000
				c.Weight = pow3(n)
				out = append(out, c)
			}
			return out
		},
	}
}

func pow3(n int) int {
	r := 1
	for i := 0; i < n; i++ {
		r *= 3
	}
	return r
}

func imin(a, b int) int {
	if a < b {
		return a
	}
	return b
}
