package main

import "verif/engine/sym"

func init() {
	grids["C10"] = &gridDef{
		explain: "every operation history (Append / Get / GetSince / LastDate / Assets over two asset names) up to the stated length is executed on the real InMemoryRepository, the real FileSystemRepository code (twice: over a stub of the CSV layer, and with the real helper.Csv layer over a record-level virtual file system incl. a zero-length file) and the real SQLRepository code with symbolic snapshot dates (day numbers), symbolic prices and symbolic GetSince bounds; after every operation the result is compared by the solver with a map-of-slices model: order, exact date >= bound filtering, last date, asset listing as a set, errors on unknown / empty, visibility of a returned Append; a second harness (H_C10_Conc) keeps two Append calls on one asset alive at the same time (in-memory and SQL repositories) under three scheduling policies, and with one call's producer held back until the other call has returned (either way round), and checks that, once both have returned, every snapshot of both is visible exactly once and in per-call order",
		bounds: func(t string) string {
			if t == "thorough" {
				return "all histories of <= 4 operations (10 operation x asset choices per step), with and without a pre-existing asset; dates in [2000-01-01, +9000 days]; concurrent appends of 0..3 and 1..3 snapshots after 0..1 earlier ones, 3 schedules + 2 pacings; single Append calls of 64, 257, 600, 1100 and 2100 snapshots"
			}
			return "all histories of <= 3 operations (10 choices per step), with and without a pre-existing asset; concurrent appends of 0..2 and 1..2 snapshots after 0..1 earlier ones, 3 schedules + 2 pacings; single Append calls of 64 and 600 snapshots"
		},
		outside:     "real SQL drivers (the SQL repository runs over a table model: database/sql entry points stubbed symbolically, a minimal in-process driver in native replays; statement semantics are the model's: rows per asset in insertion order); for the file-system repository the CSV layer (helper.ReadFromCsvFile, AppendOrWriteToCsvFile, os.ReadDir) is replaced by a file-table stub in the symbolic run (the native replay uses a real temporary directory); asset names that are not valid file names; longer histories; interleavings of concurrent calls other than the three scheduling policies' (lock acquisition order is not fixed by happens-before); concurrent appends on the file-system repository (two writers on one file: outside the map model)",
		assumptions: append([]string{"day-number model of time.Time (Equal/After/Before/AddDate(0,0,d)): whole-day UTC dates as the property's domain states", "stub contract of the CSV layer (kind 1): a file holds the rows appended to it, in order; reading a missing file is an error", "virtual file system (kind 3): a file is a list of records; os.Stat size > 0 iff it holds a record; O_APPEND writes after the existing records, other write modes start an empty file; csv.Reader follows the FieldsPerRecord contract; scalars cross the text boundary as tokens, i.e. Parse(Format(x)) = x is assumed of strconv / time (C11's subject)", "table contract of the SQL layer (harness/h/c10_sql.go): APPEND inserts a row, GETSINCE returns the asset's rows dated on/after the bound in insertion order, LASTDATE the date of its last inserted row or no row, ASSETS the distinct names", realModeNote}, commonAssumptions...),
		cases: func(tier string, pr *prober) []sym.CaseSpec {
			maxSteps := 3
			if tier == "thorough" {
				maxSteps = 4
			}
			var out []sym.CaseSpec
			for kind := 0; kind <= 3; kind++ {
				for seed := 0; seed <= 3; seed++ {
					if seed == 3 && kind != 3 {
						continue // a zero-length file exists only for the virtual file system
					}
					pow := 1
					for steps := 1; steps <= maxSteps; steps++ {
						pow *= 10
						if seed >= 2 && steps >= maxSteps {
							continue // the three-snapshot and zero-length-file seeds only with shorter histories
						}
						for code := 0; code < pow; code++ {
							c := cs("H_C10", kind, steps, code, seed)
							c.Weight = steps
							out = append(out, c)
						}
					}
				}
			}
			// one large Append (sizes at which batching / chunking logic changes behaviour)
			bulk := []int{64, 600}
			if tier == "thorough" {
				bulk = []int{64, 257, 600, 1100, 2100}
			}
			for kind := 0; kind <= 3; kind++ {
				for _, n := range bulk {
					c := cs("H_C10_Bulk", kind, n)
					c.MaxSteps = 40000000
					c.MaxWallS = 300
					out = append(out, c)
				}
			}
			// a read while an Append creates a new asset (in-memory and SQL)
			for _, kind := range []int{0, 2} {
				for op := 0; op <= 3; op++ {
					for sched := 0; sched <= 2; sched++ {
						c := cs("H_C10_ConcRead", kind, op)
						c.Sched = sched
						c.Cert, c.TrackMem = true, true // race analysis; lock order stays schedule-dependent
						out = append(out, c)
					}
				}
			}
			// two Append calls on one asset alive at the same time (in-memory and SQL): lock
			// acquisition order is schedule-dependent, so no certificate is asked for; the
			// three scheduling policies are run instead and shared memory is tracked for races
			maxN := 2
			if tier == "thorough" {
				maxN = 3
			}
			for _, kind := range []int{0, 2} {
				for n0 := 0; n0 <= 1; n0++ {
					for n1 := 0; n1 <= maxN; n1++ {
						for n2 := 1; n2 <= maxN; n2++ {
							for sched := 0; sched <= 2; sched++ {
								c := cs("H_C10_Conc", kind, n0, n1, n2, 0)
								c.Sched = sched
								c.Cert, c.TrackMem = true, true
								out = append(out, c)
							}
							for pace := 1; pace <= 2; pace++ {
								c := cs("H_C10_Conc", kind, n0, n1, n2, pace)
								c.Cert, c.TrackMem = true, true
								out = append(out, c)
							}
						}
					}
				}
			}
			return out
		},
	}
}
