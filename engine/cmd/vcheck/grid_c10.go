package main

import "verif/engine/sym"

func init() {
	grids["C10"] = &gridDef{
		explain: "every operation history (Append / Get / GetSince / LastDate / Assets over two asset names) up to the stated length is executed on the real InMemoryRepository, the real FileSystemRepository code and the real SQLRepository code with symbolic snapshot dates (day numbers), symbolic prices and symbolic GetSince bounds; after every operation the result is compared by the solver with a map-of-slices model: order, exact date >= bound filtering, last date, asset listing as a set, errors on unknown / empty, visibility of a returned Append",
		bounds: func(t string) string {
			if t == "thorough" {
				return "all histories of <= 4 operations (10 operation x asset choices per step), with and without a pre-existing asset; dates in [2000-01-01, +9000 days]"
			}
			return "all histories of <= 3 operations (10 choices per step), with and without a pre-existing asset"
		},
		outside:     "real SQL drivers (the SQL repository runs over a table model: database/sql entry points stubbed symbolically, a minimal in-process driver in native replays; statement semantics are the model's: rows per asset in insertion order); for the file-system repository the CSV layer (helper.ReadFromCsvFile, AppendOrWriteToCsvFile, os.ReadDir) is replaced by a file-table stub in the symbolic run (the native replay uses a real temporary directory); asset names that are not valid file names; longer histories",
		assumptions: append([]string{"day-number model of time.Time (Equal/After/Before/AddDate(0,0,d)): whole-day UTC dates as the property's domain states", "stub contract of the CSV layer: a file holds the rows appended to it, in order; reading a missing file is an error", "table contract of the SQL layer (harness/h/c10_sql.go): APPEND inserts a row, GETSINCE returns the asset's rows dated on/after the bound in insertion order, LASTDATE the date of its last inserted row or no row, ASSETS the distinct names", realModeNote}, commonAssumptions...),
		cases: func(tier string, pr *prober) []sym.CaseSpec {
			maxSteps := 3
			if tier == "thorough" {
				maxSteps = 4
			}
			var out []sym.CaseSpec
			for kind := 0; kind <= 2; kind++ {
				for seed := 0; seed <= 2; seed++ {
					pow := 1
					for steps := 1; steps <= maxSteps; steps++ {
						pow *= 10
						if seed == 2 && steps >= maxSteps {
							continue // the three-snapshot seed only with shorter histories
						}
						for code := 0; code < pow; code++ {
							c := cs("H_C10", kind, steps, code, seed)
							c.Weight = steps
							out = append(out, c)
						}
					}
				}
			}
			return out
		},
	}
}
