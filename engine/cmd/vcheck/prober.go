package main

import (
	"fmt"
	"strconv"
	"strings"

	"verif/engine/sym"
)

// prober runs tiny concrete harnesses (H_Idle, H_WarmS) to learn the warm-up of
// a configuration from the real code, so that grids can be laid out relative to it.
type prober struct {
	prog  *sym.Program
	sol   *sym.Solver
	cache map[string]int
	errs  []string
}

func newProber(p *sym.Program, timeoutMs int) *prober {
	s, _ := sym.NewSolver(timeoutMs)
	return &prober{prog: p, sol: s, cache: map[string]int{}}
}

func (p *prober) close() {
	if p.sol != nil {
		p.sol.Close()
	}
}

func (p *prober) probe(harness, name string, params ...int) (int, bool) {
	key := fmt.Sprint(harness, name, params)
	if v, ok := p.cache[key]; ok {
		return v, v >= 0
	}
	res := sym.RunCase(p.prog, p.sol, sym.CaseSpec{Pkg: hPkg, Harness: harness, Name: name, Params: params})
	w := -1
	if s, ok := res.Info["w"]; ok && res.Incomplete == "" {
		// "int(3)"
		s = strings.TrimSuffix(strings.TrimPrefix(s, "int("), ")")
		if v, err := strconv.Atoi(s); err == nil {
			w = v
		}
	}
	if w < 0 {
		p.errs = append(p.errs, fmt.Sprintf("probe %s %s %v failed: %s %v", harness, name, params, res.Incomplete, res.Outcomes))
	}
	p.cache[key] = w
	return w, w >= 0
}

// idle: warm-up of an indicator configuration.
func (p *prober) idle(name string, cfg [3]int) (int, bool) {
	return p.probe("H_Idle", name, cfg[0], cfg[1], cfg[2])
}

// warm: warm-up of a strategy configuration (dflt=1: default configuration).
func (p *prober) warm(name string, cfg [3]int, dflt int) (int, bool) {
	return p.probe("H_WarmS", name, cfg[0], cfg[1], cfg[2], dflt)
}
