package main

import "verif/engine/sym"

func csn(h, name string, params ...int) sym.CaseSpec {
	return sym.CaseSpec{Pkg: hPkg, Harness: h, Name: name, Params: params}
}

type hlpSpec struct {
	name      string
	nin       int
	ps, qs    []int // parameter ranges (nil = {0})
	floatOnly bool
	pByLen    bool // p ranges over 0..len+2
}

var hlpSpecs = []hlpSpec{
	{name: "Map", nin: 1, ps: []int{0, 3}}, {name: "Apply", nin: 1, ps: []int{1}},
	{name: "MapWithPrevious", nin: 1, ps: []int{0, 5}}, {name: "Filter", nin: 1, ps: []int{0}},
	{name: "Skip", nin: 1, pByLen: true}, {name: "HeadThenRest", nin: 1, pByLen: true},
	{name: "First", nin: 1, pByLen: true}, {name: "Last", nin: 1, pByLen: true},
	{name: "Shift", nin: 1, ps: []int{0, 1, 2, 3}, qs: []int{0, 7}}, {name: "Buffered", nin: 1, ps: []int{0, 1, 2, 3}},
	{name: "Pipe", nin: 1, ps: []int{0, 2}}, {name: "Waitable", nin: 1},
	{name: "Duplicate", nin: 1, ps: []int{1, 2, 3}}, {name: "Count", nin: 1, ps: []int{0, 5}},
	{name: "Since", nin: 1}, {name: "Change", nin: 1, pByLen: true},
	{name: "ChangeRatio", nin: 1, pByLen: true, floatOnly: true}, {name: "ChangePercent", nin: 1, pByLen: true, floatOnly: true},
	{name: "Operate", nin: 2}, {name: "Operate3", nin: 3}, {name: "Add", nin: 2}, {name: "Subtract", nin: 2},
	{name: "Multiply", nin: 2}, {name: "Divide", nin: 2, floatOnly: true},
	{name: "IncrementBy", nin: 1, ps: []int{3}}, {name: "DecrementBy", nin: 1, ps: []int{3}},
	{name: "MultiplyBy", nin: 1, ps: []int{0, 3}}, {name: "DivideBy", nin: 1, ps: []int{4}, floatOnly: true},
	{name: "Abs", nin: 1, floatOnly: true}, {name: "Sign", nin: 1}, {name: "KeepPositives", nin: 1}, {name: "KeepNegatives", nin: 1},
	{name: "Pow", nin: 1, ps: []int{0, 2, 3}, floatOnly: true}, {name: "Sqrt", nin: 1, floatOnly: true},
	{name: "Echo", nin: 1, ps: []int{1, 2, 3}, qs: []int{0, 1, 2}}, {name: "Seq", nin: 0, ps: []int{0, 1}, qs: []int{0, 1, 4, 5}},
	{name: "SyncPeriod", nin: 1, ps: []int{0, 2, 3}, qs: []int{0, 1, 3}},
}

func init() {
	grids["C16"] = &gridDef{
		explain: "each case runs one real stream helper on symbolic elements (float64 as exact reals; int as 64-bit bit-vectors) with concrete lengths/parameters/channel capacity and asks the solver whether any output element or length can differ from the slice model; termination, closing of outputs, consumption of longer inputs (no goroutine left) and the partial-order certificate are checked on every path",
		bounds: func(t string) string {
			if t == "thorough" {
				return "input lengths 0..8 (all unequal combinations 0..5 for zips), parameters 0..len+2, duplicate counts 1..3, buffer sizes 0..3, input channel capacity 0,1,3"
			}
			return "input lengths 0..5 (all unequal combinations 0..3 for zips), parameters 0..len+2, duplicate counts 1..3, buffer sizes 0..3, input channel capacity 0,2"
		},
		outside:     "longer streams; helper.Field/CheckEquals (reflection), CSV/JSON helpers (C11/C19); Head raced against a concurrent reader (unspecified by its contract)",
		assumptions: append([]string{realModeNote, "oracle: slice models in harness/h/c16.go (Appendix C of DESIGN.md)"}, commonAssumptions...),
		cases: func(tier string, pr *prober) []sym.CaseSpec {
			maxLen, zipLen := 5, 3
			caps := []int{0, 2}
			if tier == "thorough" {
				maxLen, zipLen = 8, 5
				caps = []int{0, 1, 3}
			}
			var out []sym.CaseSpec
			add := func(h hlpSpec, harness string) {
				ps, qs := h.ps, h.qs
				if ps == nil {
					ps = []int{0}
				}
				if qs == nil {
					qs = []int{0}
				}
				var lens [][3]int
				switch h.nin {
				case 0:
					lens = [][3]int{{0, 0, 0}}
				case 1:
					for n := 0; n <= maxLen; n++ {
						lens = append(lens, [3]int{n, 0, 0})
					}
				case 2:
					for a := 0; a <= zipLen; a++ {
						for b := 0; b <= zipLen; b++ {
							lens = append(lens, [3]int{a, b, 0})
						}
					}
				case 3:
					z := zipLen
					if z > 3 {
						z = 3
					}
					for a := 0; a <= z; a++ {
						for b := 0; b <= z; b++ {
							for c := 0; c <= z; c++ {
								lens = append(lens, [3]int{a, b, c})
							}
						}
					}
				}
				for _, l := range lens {
					pp := ps
					if h.pByLen {
						pp = nil
						for p := 0; p <= l[0]+2; p++ {
							pp = append(pp, p)
						}
					}
					for _, p := range pp {
						for _, q := range qs {
							for ci, c := range caps {
								if h.nin > 1 && ci > 0 && (l[0]+l[1]+l[2])%2 == 1 {
									continue // thin the capacity dimension for zips
								}
								cs := csn(harness, h.name, l[0], l[1], l[2], p, q, c)
								cs.Cert = true
								out = append(out, cs)
							}
						}
					}
				}
			}
			for _, h := range hlpSpecs {
				add(h, "H_C16F")
				if !h.floatOnly {
					add(h, "H_C16I")
				}
			}
			// the executor's restricted select against the native run (translator validation)
			out = append(out, cs("H_Self_Select"))
			return out
		},
	}

	grids["C17"] = &gridDef{
		explain: "Ring: one inductive step from every valid representation state (capacity, begin, end, empty enumerated; buffer contents and the pushed value symbolic) against the bounded-FIFO abstraction, plus histories from NewRing with symbolic operation kinds; Bst: histories with symbolic operation kinds and symbolic values (bit-vectors for int8..int64, IEEE floating point for float32/float64) against a multiset model; the executor forks on tree shape, the solver decides every comparison including wrap-around",
		bounds: func(t string) string {
			if t == "thorough" {
				return "ring capacity 1..5, all states, ops Put/Get/At/IsFull/IsEmpty; ring histories <= 8 ops; Bst histories <= 5 ops (int8, int16), <= 4 (int32, int64, int, float32), <= 3 (float64); Bst inductive step from every valid tree with <= 4 nodes (23 shapes)"
			}
			return "ring capacity 1..4, all states; ring histories <= 6 ops; Bst histories <= 4 ops (int8,int16) / 3 ops (int32,int64,int,float32,float64); Bst inductive step from every valid tree with <= 3 nodes (all shapes, symbolic values under the search invariant), int8/int64/float64"
		},
		outside:     "longer histories (ring: covered by the inductive step given the invariant; Bst: not covered), NaN and infinities as Bst elements, concurrent use",
		assumptions: append([]string{"fp mode: bit-precise IEEE-754 (QF_FP); the comparison of a difference with zero is rewritten to a direct comparison by a lemma that the solver discharges (unsat) once per solver process before it is used", "ring representation invariant: 0<=begin,end<cap and empty => begin==end (shown reachable-closed by the history harness)"}, commonAssumptions...),
		cases: func(tier string, pr *prober) []sym.CaseSpec {
			var out []sym.CaseSpec
			maxCap, histLen := 4, 6
			if tier == "thorough" {
				maxCap, histLen = 5, 8
			}
			for _, h := range []string{"H_C17_RingStepI8", "H_C17_RingStepI64", "H_C17_RingStepF64"} {
				for c := 1; c <= maxCap; c++ {
					for b := 0; b < c; b++ {
						for e := 0; e < c; e++ {
							for em := 0; em <= 1; em++ {
								if em == 1 && b != e {
									continue
								}
								out = append(out, cs(h, c, b, e, em, 0, 0), cs(h, c, b, e, em, 1, 0), cs(h, c, b, e, em, 3, 0))
								for a := 0; a < c; a++ {
									out = append(out, cs(h, c, b, e, em, 2, a))
								}
							}
						}
					}
				}
			}
			for c := 1; c <= 3; c++ {
				for l := 1; l <= histLen; l++ {
					out = append(out, cs("H_C17_RingHist", c, l))
				}
			}
			// Bst: one inductive step from every shape with <= 4 nodes (1+1+2+5+14 shapes)
			nshapes := []int{1, 1, 2, 5, 14}
			maxSize := 3
			if tier == "thorough" {
				maxSize = 4
			}
			for _, h := range []string{"H_C17_BstStepI8", "H_C17_BstStepI64", "H_C17_BstStepF64"} {
				for size := 0; size <= maxSize; size++ {
					if h == "H_C17_BstStepF64" && size > 3 {
						continue
					}
					for shape := 0; shape < nshapes[size]; shape++ {
						for op := 0; op <= 3; op++ {
							c := cs(h, size, shape, op)
							c.FP = h == "H_C17_BstStepF64"
							c.Weight = 50 * (size + 1)
							out = append(out, c)
						}
					}
				}
			}
			type bt struct {
				h     string
				fp    bool
				q, th int
			}
			for _, b := range []bt{{"H_C17_BstI8", false, 4, 5}, {"H_C17_BstI16", false, 4, 5}, {"H_C17_BstI32", false, 3, 4}, {"H_C17_BstI64", false, 3, 4}, {"H_C17_BstInt", false, 3, 4},
				{"H_C17_BstF32", true, 3, 4}, {"H_C17_BstF64", true, 3, 3}} {
				mx := b.q
				if tier == "thorough" {
					mx = b.th
				}
				for k := 1; k <= mx; k++ {
					c := cs(b.h, k)
					c.FP = b.fp
					c.MaxPaths = 20000
					c.Weight = 100 * k * k
					out = append(out, c)
				}
			}
			// the tree's main clients over an integer element type (extremes of int8 included)
			mp := 3
			if tier == "thorough" {
				mp = 4
			}
			for p := 1; p <= mp; p++ {
				for n := p; n <= p+2; n++ {
					for isMin := 0; isMin <= 1; isMin++ {
						c := cs("H_C17_MovingInt", p, n, isMin)
						c.MaxPaths = 20000
						out = append(out, c)
					}
				}
			}
			return out
		},
	}
}
