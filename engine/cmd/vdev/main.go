// vdev runs one case and prints the raw result (development aid).
package main

import (
	"encoding/json"
	"flag"
	"fmt"
	"os"
	"sort"
	"strconv"
	"time"

	"verif/engine/sym"
)

func main() {
	fp := flag.Bool("fp", false, "fp mode")
	cert := flag.Bool("cert", false, "certificate")
	mem := flag.Bool("mem", false, "track memory")
	nomerge := flag.Bool("nomerge", false, "disable merging")
	zeroden := flag.Int("zeroden", 0, "zero-denominator exploration budget")
	logf := flag.String("log", "", "solver log file")
	full := flag.Bool("json", false, "print the raw result as JSON")
	dir := flag.String("dir", "/verif/harness", "harness module directory")
	flag.Parse()
	args := flag.Args()
	t0 := time.Now()
	p, err := sym.Load(*dir, "./h")
	if err != nil {
		fmt.Fprintln(os.Stderr, err)
		os.Exit(2)
	}
	fmt.Fprintf(os.Stderr, "load %.1fs\n", time.Since(t0).Seconds())
	sol, err := sym.NewSolver(20000)
	if err != nil {
		panic(err)
	}
	defer sol.Close()
	if *logf != "" {
		f, _ := os.Create(*logf)
		sol.Log = f
	}
	var params []int
	name := ""
	for _, a := range args[1:] {
		v, err := strconv.Atoi(a)
		if err != nil {
			name = a
			continue
		}
		params = append(params, v)
	}
	res := sym.RunCase(p, sol, sym.CaseSpec{Pkg: "verif/harness/h", Harness: args[0], Name: name, Params: params, FP: *fp, Cert: *cert, TrackMem: *mem, NoMerge: *nomerge, ZeroDen: *zeroden})
	res.Funcs = nil
	if *full {
		b, _ := json.MarshalIndent(res, "", " ")
		fmt.Println(string(b))
		return
	}
	fmt.Printf("case %s: paths=%d steps=%d outcomes=%v merges=%d/%d aborts queries=%d (unsat %d sat %d unknown %d) wall=%.2fs\n", res.Spec.ID(), res.Paths, res.Steps, res.Outcomes, res.Merges, res.MergeAborts, res.Stats.Queries, res.Stats.Unsat, res.Stats.Sat, res.Stats.Unknown, res.Wall.Seconds())
	if res.Incomplete != "" {
		fmt.Println("  INCOMPLETE:", res.Incomplete)
	}
	var labels []string
	for l := range res.Asserts {
		labels = append(labels, l)
	}
	sort.Strings(labels)
	for _, l := range labels {
		a := res.Asserts[l]
		fmt.Printf("  assert %-24s paths=%d holds=%d violated=%d unknown=%d trivial=%d\n", l, a.Paths, a.Holds, a.Violated, a.Unknown, a.Trivial)
	}
	for l, n := range res.ReachSeen {
		fmt.Printf("  reach %s: sat on %d/%d paths\n", l, res.ReachSat[l], n)
	}
	if res.Certs > 0 {
		fmt.Printf("  certificate: %d/%d issued events=%d edges=%d pairs=%d notes=%v\n", res.CertIssued, res.Certs, res.CertEvents, res.CertEdges, res.CertPairs, res.CertNotes)
	}
	for _, v := range res.Violations {
		fmt.Printf("  VIOLATION kind=%s label=%s known=%q detail=%s model=%v\n", v.Kind, v.Label, v.Known, v.Detail, v.Model)
	}
	for k, v := range res.Info {
		fmt.Printf("  info %s=%s\n", k, v)
	}
}
