// vdev runs one case and prints the raw result (development aid).
package main

import (
	"encoding/json"
	"flag"
	"fmt"
	"os"
	"strconv"
	"time"

	"verif/engine/sym"
)

func main() {
	fp := flag.Bool("fp", false, "fp mode")
	cert := flag.Bool("cert", false, "certificate")
	mem := flag.Bool("mem", false, "track memory")
	nomerge := flag.Bool("nomerge", false, "disable merging")
	logf := flag.String("log", "", "solver log file")
	flag.Parse()
	args := flag.Args()
	t0 := time.Now()
	p, err := sym.Load("/verif/harness", "./h")
	if err != nil {
		fmt.Fprintln(os.Stderr, err)
		os.Exit(2)
	}
	fmt.Fprintf(os.Stderr, "load %.1fs\n", time.Since(t0).Seconds())
	sol, err := sym.NewSolver(20000)
	if err != nil {
		panic(err)
	}
	defer sol.Close()
	if *logf != "" {
		f, _ := os.Create(*logf)
		sol.Log = f
	}
	var params []int
	for _, a := range args[1:] {
		v, _ := strconv.Atoi(a)
		params = append(params, v)
	}
	res := sym.RunCase(p, sol, sym.CaseSpec{Pkg: "verif/harness/h", Harness: args[0], Params: params, FP: *fp, Cert: *cert, TrackMem: *mem, NoMerge: *nomerge})
	res.Funcs = nil
	b, _ := json.MarshalIndent(res, "", " ")
	fmt.Println(string(b))
}
