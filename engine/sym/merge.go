package sym

import (
	"golang.org/x/tools/go/ssa"
	"os"
)

// computeIPDom computes immediate post-dominators; blocks whose ipdom is the
// virtual exit map to nil. Blocks that cannot reach an exit are absent.
func computeIPDom(fn *ssa.Function) map[*ssa.BasicBlock]*ssa.BasicBlock {
	n := len(fn.Blocks)
	if n == 0 {
		return nil
	}
	exit := n // virtual exit index
	succs := make([][]int, n+1)
	preds := make([][]int, n+1)
	for _, b := range fn.Blocks {
		if len(b.Succs) == 0 {
			succs[b.Index] = []int{exit}
			preds[exit] = append(preds[exit], b.Index)
			continue
		}
		for _, s := range b.Succs {
			succs[b.Index] = append(succs[b.Index], s.Index)
			preds[s.Index] = append(preds[s.Index], b.Index)
		}
	}
	// reverse post-order of the reversed graph, starting at exit
	order := []int{}
	seen := make([]bool, n+1)
	var dfs func(int)
	dfs = func(u int) {
		seen[u] = true
		for _, p := range preds[u] {
			if !seen[p] {
				dfs(p)
			}
		}
		order = append(order, u)
	}
	dfs(exit)
	rpoNum := make([]int, n+1)
	for i := range rpoNum {
		rpoNum[i] = -1
	}
	for i, j := 0, len(order)-1; i < j; i, j = i+1, j-1 {
		order[i], order[j] = order[j], order[i]
	}
	for i, u := range order {
		rpoNum[u] = i
	}
	idom := make([]int, n+1)
	for i := range idom {
		idom[i] = -1
	}
	idom[exit] = exit
	intersect := func(a, b int) int {
		for a != b {
			for rpoNum[a] > rpoNum[b] {
				a = idom[a]
			}
			for rpoNum[b] > rpoNum[a] {
				b = idom[b]
			}
		}
		return a
	}
	for changed := true; changed; {
		changed = false
		for _, u := range order[1:] {
			nd := -1
			for _, s := range succs[u] {
				if idom[s] == -1 {
					continue
				}
				if nd == -1 {
					nd = s
				} else {
					nd = intersect(nd, s)
				}
			}
			if nd != -1 && idom[u] != nd {
				idom[u] = nd
				changed = true
			}
		}
	}
	res := map[*ssa.BasicBlock]*ssa.BasicBlock{}
	for _, b := range fn.Blocks {
		d := idom[b.Index]
		if d == -1 {
			continue
		}
		if d == exit {
			res[b] = nil
		} else {
			res[b] = fn.Blocks[d]
		}
	}
	return res
}

var debugMerge = os.Getenv("VERIF_DEBUG_MERGE") != ""

// computeLiveIn computes, per block, the registers live on entry (phi operands
// count as live-out of the predecessor, not live-in of the phi's block).
func computeLiveIn(fn *ssa.Function, idx map[ssa.Value]int) map[*ssa.BasicBlock]map[int]bool {
	n := len(fn.Blocks)
	use := make([]map[int]bool, n)
	def := make([]map[int]bool, n)
	phiOut := make([]map[int]bool, n) // regs used by successors' phis along the edge from this block
	for i := range use {
		use[i], def[i], phiOut[i] = map[int]bool{}, map[int]bool{}, map[int]bool{}
	}
	var ops []*ssa.Value
	for _, b := range fn.Blocks {
		for _, in := range b.Instrs {
			if phi, ok := in.(*ssa.Phi); ok {
				for k, e := range phi.Edges {
					if r, ok := idx[e]; ok {
						phiOut[b.Preds[k].Index][r] = true
					}
				}
				def[b.Index][idx[phi]] = true
				continue
			}
			ops = in.Operands(ops[:0])
			for _, o := range ops {
				if *o == nil {
					continue
				}
				if r, ok := idx[*o]; ok && !def[b.Index][r] {
					use[b.Index][r] = true
				}
			}
			if v, ok := in.(ssa.Value); ok {
				def[b.Index][idx[v]] = true
			}
		}
	}
	liveIn := make([]map[int]bool, n)
	for i := range liveIn {
		liveIn[i] = map[int]bool{}
		for r := range use[i] {
			liveIn[i][r] = true
		}
	}
	for changed := true; changed; {
		changed = false
		for i := n - 1; i >= 0; i-- {
			b := fn.Blocks[i]
			add := func(r int) {
				if !def[i][r] && !liveIn[i][r] {
					liveIn[i][r] = true
					changed = true
				}
			}
			for r := range phiOut[i] {
				add(r)
			}
			for _, s := range b.Succs {
				for r := range liveIn[s.Index] {
					add(r)
				}
			}
		}
	}
	res := map[*ssa.BasicBlock]map[int]bool{}
	for i, b := range fn.Blocks {
		res[b] = liveIn[i]
	}
	return res
}

// markFresh records a slot (and the slots nested in its aggregate value) as
// allocated inside a speculative arm.
func (ex *Exec) markFresh(p *Value) {
	if ex.freshSlots == nil {
		ex.freshSlots = map[*Value]bool{}
	}
	ex.freshSlots[p] = true
	switch x := (*p).(type) {
	case Struct:
		for i := range x {
			ex.markFresh(&x[i])
		}
	case Array:
		for i := range x {
			ex.markFresh(&x[i])
		}
	}
}

type armResult struct {
	regs     []Value
	returned bool
	ret      Value
	pred     *ssa.BasicBlock
	phis     []Value
	writes   map[*Value]Value
	order    []*Value
}

// altJoin: the first block (in reverse post-order) reachable from both
// successors of b without passing through b; a more local join than the
// immediate post-dominator when early returns push the latter to the exit.
func altJoin(fn *ssa.Function, b *ssa.BasicBlock) *ssa.BasicBlock {
	if len(b.Succs) != 2 {
		return nil
	}
	reach := func(from *ssa.BasicBlock) map[*ssa.BasicBlock]bool {
		seen := map[*ssa.BasicBlock]bool{}
		var dfs func(x *ssa.BasicBlock)
		dfs = func(x *ssa.BasicBlock) {
			if seen[x] || x == b {
				return
			}
			seen[x] = true
			for _, s := range x.Succs {
				dfs(s)
			}
		}
		dfs(from)
		return seen
	}
	r0, r1 := reach(b.Succs[0]), reach(b.Succs[1])
	// reverse post-order of the forward CFG
	var order []*ssa.BasicBlock
	seen := map[*ssa.BasicBlock]bool{}
	var dfs func(x *ssa.BasicBlock)
	dfs = func(x *ssa.BasicBlock) {
		seen[x] = true
		for _, s := range x.Succs {
			if !seen[s] {
				dfs(s)
			}
		}
		order = append(order, x)
	}
	dfs(fn.Blocks[0])
	for i := len(order) - 1; i >= 0; i-- {
		x := order[i]
		if r0[x] && r1[x] {
			return x
		}
	}
	return nil
}

// tryMerge attempts if-conversion of the symbolic branch at the top frame.
func (ex *Exec) tryMerge(g *G, f *Frame, c *Term) bool {
	if ex.NoMerge || ex.noMerge[f.block] || ex.spec > 24 {
		return false
	}
	b := f.block
	J, ok := f.info.ipdom[b]
	if !ok {
		return false
	}
	if J == nil {
		// early returns make the exit the post-dominator: try a local join first
		f.info.mu.Lock()
		aj, done := f.info.alt[b]
		if !done {
			aj = altJoin(f.fn, b)
			f.info.alt[b] = aj
		}
		f.info.mu.Unlock()
		if aj != nil && !ex.noMergeAlt[b] {
			if ex.tryMergeAt(g, f, c, aj) {
				return true
			}
			ex.noMergeAlt[b] = true
			delete(ex.noMerge, b)
		}
	}
	return ex.tryMergeAt(g, f, c, J)
}

func (ex *Exec) tryMergeAt(g *G, f *Frame, c *Term, J *ssa.BasicBlock) bool {
	depth := len(g.frames)
	// snapshot
	savedRegs := append([]Value(nil), f.regs...)
	savedBlock, savedPrev, savedPC := f.block, f.prev, f.pc
	savedDefers := len(f.defers)
	var caller *Frame
	var callerRegs []Value
	callerPC := 0
	if depth >= 2 {
		caller = g.frames[depth-2]
		callerRegs = append([]Value(nil), caller.regs...)
		callerPC = caller.pc
	}
	savedPCLen := len(ex.pc)
	_ = savedPCLen
	savedUndo := ex.undo
	savedSteps := ex.steps
	budget := ex.MergeBudget
	if budget == 0 {
		budget = 200000
	}

	runArm := func(succ int, guard *Term) (res *armResult, ok bool) {
		var log []undoRec
		ex.undo = &log
		ex.spec++
		ex.guards = append(ex.guards, guard)
		defer func() {
			ex.guards = ex.guards[:len(ex.guards)-1]
			ex.spec--
			ex.undo = savedUndo
			r := recover()
			// collect final values of written cells, then undo
			if r == nil && res != nil {
				res.writes = map[*Value]Value{}
				for _, u := range log {
					if _, seen := res.writes[u.p]; !seen {
						res.order = append(res.order, u.p)
					}
					res.writes[u.p] = *u.p
				}
			}
			for i := len(log) - 1; i >= 0; i-- {
				*log[i].p = log[i].old
			}
			// restore the frame
			g.frames = g.frames[:depth]
			g.frames[depth-1] = f
			copy(f.regs, savedRegs)
			f.block, f.prev, f.pc = savedBlock, savedPrev, savedPC
			f.defers = f.defers[:savedDefers]
			f.phiOv, f.hasPhiOv = nil, false
			if caller != nil {
				copy(caller.regs, callerRegs)
				caller.pc = callerPC
			}
			ex.hasArmRet = false
			g.status = gRunnable
			if r != nil {
				if ab, isAbort := r.(mergeAbort); isAbort {
					if debugMerge {
						println("merge abort at", f.fn.String(), "block", savedBlock.Index, ":", ab.why)
					}
					res, ok = nil, false
					return
				}
				if u, isUns := r.(unsupported); isUns {
					if debugMerge {
						println("merge abort (unsupported) at", f.fn.String(), "block", savedBlock.Index, ":", u.what)
					}
					// e.g. a symbolic index inside the arm: forking may make it concrete
					res, ok = nil, false
					return
				}
				if _, isPanic := r.(goPanic); isPanic {
					// a panic inside one arm: let the fork path report it
					res, ok = nil, false
					return
				}
				panic(r)
			}
		}()
		ex.jump(f, savedBlock.Succs[succ])
		if ex.steps-savedSteps > budget {
			panic(mergeAbort{"arm budget"})
		}
		ex.armDepths = append(ex.armDepths, depth)
		defer func() { ex.armDepths = ex.armDepths[:len(ex.armDepths)-1] }()
		// capture the return value by intercepting ret: run until depth drops
		res = &armResult{}
		returned := ex.runArm(g, depth, J, res)
		res.returned = returned
		if !returned {
			res.regs = append([]Value(nil), f.regs...)
			// collect phi inputs at J for this arm
			res.pred = f.prev
			var idx int
			for i, p := range J.Preds {
				if p == f.prev {
					idx = i
				}
			}
			if f.hasPhiOv {
				res.phis = f.phiOv
				f.phiOv, f.hasPhiOv = nil, false
			} else {
				for _, in := range J.Instrs {
					phi, isPhi := in.(*ssa.Phi)
					if !isPhi {
						break
					}
					res.phis = append(res.phis, ex.reg(f, phi.Edges[idx]))
				}
			}
		}
		return res, true
	}

	ts := ex.TS
	a, okA := runArm(0, c)
	if !okA {
		ex.noMerge[savedBlock] = true
		if debugMerge {
			println("merge failed (site 385) at", f.fn.String(), "block", savedBlock.Index)
		}
		ex.mergeAborts++
		return false
	}
	b, okB := runArm(1, ts.Not(c))
	if !okB || a.returned != b.returned {
		ex.noMerge[savedBlock] = true
		if debugMerge {
			println("merge failed (site 391) at", f.fn.String(), "block", savedBlock.Index)
		}
		ex.mergeAborts++
		return false
	}
	// merge heap writes
	type wr struct {
		p *Value
		v Value
	}
	var merged []wr
	seen := map[*Value]bool{}
	for _, lst := range [][]*Value{a.order, b.order} {
		for _, p := range lst {
			if seen[p] {
				continue
			}
			seen[p] = true
			va, inA := a.writes[p]
			vb, inB := b.writes[p]
			if !inA {
				va = *p
			}
			if !inB {
				vb = *p
			}
			if sameVal(va, vb) {
				merged = append(merged, wr{p, va})
				continue
			}
			if ex.freshSlots[p] {
				// a slot allocated inside one arm: only pointers created in that arm reach
				// it (a pointer that escapes the arm fails to merge below), so it keeps
				// that arm's value
				if inA {
					merged = append(merged, wr{p, va})
				} else {
					merged = append(merged, wr{p, vb})
				}
				continue
			}
			mv, ok := ex.mergeVal(c, va, vb)
			if !ok {
				ex.noMerge[savedBlock] = true
				if debugMerge {
					println("merge failed (site 422) at", f.fn.String(), "block", savedBlock.Index)
				}
				ex.mergeAborts++
				return false
			}
			merged = append(merged, wr{p, mv})
		}
	}
	var retv Value
	var phis []Value
	if a.returned {
		if a.ret == nil && b.ret == nil {
			retv = nil
		} else if sameVal(a.ret, b.ret) {
			retv = a.ret
		} else {
			mv, ok := ex.mergeVal(c, a.ret, b.ret)
			if !ok {
				ex.noMerge[savedBlock] = true
				if debugMerge {
					println("merge failed (site 439) at", f.fn.String(), "block", savedBlock.Index)
				}
				ex.mergeAborts++
				return false
			}
			retv = mv
		}
	} else {
		for i := range a.phis {
			if sameVal(a.phis[i], b.phis[i]) {
				phis = append(phis, a.phis[i])
				continue
			}
			mv, ok := ex.mergeVal(c, a.phis[i], b.phis[i])
			if !ok {
				ex.noMerge[savedBlock] = true
				if debugMerge {
					println("merge failed (site 453) at", f.fn.String(), "block", savedBlock.Index)
				}
				ex.mergeAborts++
				return false
			}
			phis = append(phis, mv)
		}
	}
	// registers live into J that the arms left different (loop-carried phis)
	type rg struct {
		i int
		v Value
	}
	var regMerged []rg
	if !a.returned {
		for r := range f.info.liveIn[J] {
			va, vb := a.regs[r], b.regs[r]
			if sameVal(va, vb) {
				if !sameVal(va, savedRegs[r]) {
					regMerged = append(regMerged, rg{r, va})
				}
				continue
			}
			mv, ok := ex.mergeVal(c, va, vb)
			if !ok {
				ex.noMerge[savedBlock] = true
				if debugMerge {
					println("merge failed (site 477) at", f.fn.String(), "block", savedBlock.Index)
				}
				ex.mergeAborts++
				return false
			}
			regMerged = append(regMerged, rg{r, mv})
		}
	}
	// commit
	ex.merges++
	for _, r := range regMerged {
		f.regs[r.i] = r.v
	}
	if debugMerge && false {
		println("merge at", f.fn.String(), "block", savedBlock.Index, "returned", a.returned, "writes", len(merged))
	}
	for _, w := range merged {
		ex.write(w.p, w.v)
	}
	if a.returned {
		if n := len(ex.armDepths); n > 0 && ex.armDepths[n-1] == depth {
			// the returning frame is the base frame of an enclosing arm: hand the
			// value to that arm instead of popping the frame
			ex.armRet, ex.hasArmRet = retv, true
			return true
		}
		// pop frame f delivering retv
		ex.retMerged(g, f, retv)
		return true
	}
	// enter J with the merged phi inputs pending: an enclosing arm that stops at
	// J (pc == 0) picks them up; otherwise doPhis applies them
	f.prev = a.pred
	f.block = J
	f.pc = 0
	f.phiOv, f.hasPhiOv = phis, len(phis) > 0
	return true
}

// runArm steps g until the frame at depth enters J or returns; captures the
// return value of that frame.
func (ex *Exec) runArm(g *G, depth int, J *ssa.BasicBlock, res *armResult) (returned bool) {
	for {
		if ex.hasArmRet && len(g.frames) == depth {
			res.ret = ex.armRet
			ex.hasArmRet = false
			return true
		}
		if len(g.frames) == depth {
			f := g.frames[depth-1]
			if J != nil && f.block == J && f.pc == 0 {
				return false
			}
			// intercept the return of the arm's own frame
			if rt, isRet := f.block.Instrs[f.pc].(*ssa.Return); isRet {
				switch len(rt.Results) {
				case 0:
					res.ret = nil
				case 1:
					res.ret = ex.reg(f, rt.Results[0])
				default:
					t := make(Tuple, len(rt.Results))
					for i, r := range rt.Results {
						t[i] = ex.reg(f, r)
					}
					res.ret = t
				}
				return true
			}
		}
		if len(g.frames) < depth {
			panic(mergeAbort{"frame underflow"})
		}
		if g.status != gRunnable {
			panic(mergeAbort{"blocked in arm"})
		}
		ex.step(g)
	}
}

// retMerged pops frame f (top of g) with a merged result.
func (ex *Exec) retMerged(g *G, f *Frame, v Value) {
	if len(f.defers) > 0 {
		// cannot skip pending defers: should not happen (RunDefers precedes Return)
		panic(unsupported{"merged return with pending defers"})
	}
	ex.ret(g, v)
}
