package sym

import (
	"fmt"
	"sort"
	"strings"
	"time"

	"golang.org/x/tools/go/ssa"
)

// CaseSpec identifies one symbolic execution: harness × structural parameters.
type CaseSpec struct {
	Pkg       string `json:"pkg"`
	Harness   string `json:"harness"`
	Name      string `json:"name,omitempty"` // optional leading string parameter (table entry)
	Params    []int  `json:"params"`
	FP        bool   `json:"fp,omitempty"`
	Cert      bool   `json:"cert,omitempty"`      // issue the partial-order certificate
	TrackMem  bool   `json:"track_mem,omitempty"` // include memory cells in the certificate
	MaxPaths  int    `json:"max_paths,omitempty"`
	MaxSteps  int    `json:"max_steps,omitempty"`
	NoMerge   bool   `json:"no_merge,omitempty"`
	Tag       string `json:"tag,omitempty"`
	Weight    int    `json:"-"`                  // scheduling hint (heavier cases first)
	WantModel bool   `json:"-"`                  // keep a model of the first path (translator validation)
	MaxWallS  int    `json:"-"`                  // wall-clock budget for the whole case (seconds)
	Sched     int    `json:"sched,omitempty"`    // scheduling policy of the executor (0 lowest id first, 1 highest id first, 2 round robin)
	SkipReach bool   `json:"-"`                  // do not spend a (possibly nonlinear) query on the vacuity guard
	ZeroDen   int    `json:"zero_den,omitempty"` // number of executed divisions per path that may have a zero denominator (explored by forking)
}

func (c CaseSpec) ID() string {
	var ps []string
	for _, p := range c.Params {
		ps = append(ps, fmt.Sprint(p))
	}
	if c.Name != "" {
		ps = append([]string{c.Name}, ps...)
	}
	s := c.Harness + "(" + strings.Join(ps, ",") + ")"
	if c.Sched != 0 {
		s += fmt.Sprintf("@sched%d", c.Sched)
	}
	if c.ZeroDen != 0 {
		s += fmt.Sprintf("@zeroden%d", c.ZeroDen)
	}
	if c.Tag != "" {
		s += "#" + c.Tag
	}
	return s
}

type AssertAgg struct {
	Paths, Holds, Violated, Unknown, Trivial int
}

// Violation found by a case (before native replay).
type Violation struct {
	Case   CaseSpec          `json:"case"`
	Kind   string            `json:"kind"` // assert | deadlock | leak | panic | race | frozen-write
	Label  string            `json:"label"`
	Detail string            `json:"detail,omitempty"`
	Model  map[string]string `json:"model"`
	Known  string            `json:"known,omitempty"`
	Trace  []bool            `json:"trace,omitempty"`
}

type CaseResult struct {
	Spec                             CaseSpec
	Paths                            int
	Steps                            int
	Outcomes                         map[Outcome]int
	Asserts                          map[string]*AssertAgg
	ReachSat                         map[string]int
	ReachSeen                        map[string]int
	Certs                            int
	CertIssued                       int
	CertEvents, CertEdges, CertPairs int
	CertNotes                        []string
	Incomplete                       string
	Violations                       []Violation
	KnownHeld                        map[string]int // known-finding asserts that held on a path (no longer failing there)
	Funcs                            map[string]bool
	Stubs                            map[string]bool
	Merges, MergeAborts              int
	SideConds                        int
	Stats                            SolverStats
	Wall                             time.Duration
	Info                             map[string]string
	Nondet                           int
	SampleTerm                       string
	certStats                        SolverStats
	SampleModel                      map[string]string // a model of the first completed path's condition (inside the replay ranges)
}

// RunCase explores all paths of a case.
func RunCase(p *Program, sol *Solver, spec CaseSpec) *CaseResult {
	t0 := time.Now()
	res := &CaseResult{Spec: spec, Outcomes: map[Outcome]int{}, Asserts: map[string]*AssertAgg{},
		ReachSat: map[string]int{}, ReachSeen: map[string]int{}, Funcs: map[string]bool{}, Stubs: map[string]bool{},
		Info: map[string]string{}, KnownHeld: map[string]int{}}
	entry := p.Func(spec.Pkg, spec.Harness)
	if entry == nil {
		res.Incomplete = "harness not found: " + spec.Pkg + "." + spec.Harness
		return res
	}
	nName := 0
	if spec.Name != "" {
		nName = 1
	}
	if len(entry.Params) != len(spec.Params)+nName {
		res.Incomplete = fmt.Sprintf("harness %s takes %d parameters, %d given", spec.Harness, len(entry.Params), len(spec.Params))
		return res
	}
	maxPaths := spec.MaxPaths
	if maxPaths == 0 {
		maxPaths = 2000
	}
	before := sol.Stats
	before.BySolver = map[string]int{}
	for k, v := range sol.Stats.BySolver {
		before.BySolver[k] = v
	}
	noMerge := map[*ssa.BasicBlock]bool{}
	sampleDepth := 0
	var certSol *Solver
	defer func() {
		if certSol != nil {
			certSol.Close()
		}
	}()
	work := [][]bool{nil}
	seenViol := map[string]bool{}
	maxWall := time.Duration(spec.MaxWallS) * time.Second
	if maxWall == 0 {
		maxWall = 10 * time.Minute
	}
	deadline := t0.Add(maxWall)
	sol.Deadline = deadline
	defer func() { sol.Deadline = time.Time{} }()
	for len(work) > 0 {
		if time.Now().After(deadline) {
			res.Incomplete = fmt.Sprintf("case time budget %v exceeded (%d paths done, %d pending)", maxWall, res.Paths, len(work))
			break
		}
		if res.Paths >= maxPaths {
			res.Incomplete = fmt.Sprintf("path cap %d hit (%d pending)", maxPaths, len(work))
			break
		}
		trace := work[len(work)-1]
		work = work[:len(work)-1]
		ex := NewExec(p, sol, spec.FP, trace, noMerge)
		ex.NoMerge = spec.NoMerge
		ex.deadline = deadline
		ex.SkipReach = spec.SkipReach
		ex.Sched = spec.Sched
		ex.ZeroDen = spec.ZeroDen
		ex.IEEE = spec.ZeroDen > 0
		ex.trackMem = spec.TrackMem
		if spec.MaxSteps > 0 {
			ex.MaxSteps = spec.MaxSteps
		}
		var params []Value
		if spec.Name != "" {
			params = append(params, Str{C: spec.Name})
		}
		for _, v := range spec.Params {
			params = append(params, mkInt(int64(v), 64, false))
		}
		out := ex.Run(entry, params)
		res.Paths++
		res.Steps += ex.steps
		res.Outcomes[out]++
		res.Merges += ex.merges
		res.MergeAborts += ex.mergeAborts
		res.SideConds += ex.sideConds
		if len(ex.nondet) > res.Nondet {
			res.Nondet = len(ex.nondet)
		}
		for f := range ex.funcs {
			res.Funcs[f.String()] = true
		}
		for s := range ex.stubs {
			res.Stubs[s] = true
		}
		for k, v := range ex.Info {
			res.Info[k] = v
		}
		work = append(work, ex.newAlts...)
		if ex.unknownBranches > 0 {
			res.Incomplete = "branch feasibility unknown"
		}
		for _, a := range ex.Asserts {
			base := a.Label
			agg := res.Asserts[base]
			if agg == nil {
				agg = &AssertAgg{}
				res.Asserts[base] = agg
			}
			agg.Paths++
			switch a.Result {
			case "holds":
				agg.Holds++
				if a.Known != "" {
					res.KnownHeld[a.Known]++
				}
			case "trivial":
				agg.Trivial++
				if a.Known != "" {
					res.KnownHeld[a.Known]++
				}
			case "unknown":
				agg.Unknown++
				res.Incomplete = "assertion " + a.Label + ": solver unknown"
			case "vacuous", "exempt":
				agg.Trivial++
			case "violated":
				agg.Violated++
				key := a.Label + "|" + a.Known
				if !seenViol[key] {
					seenViol[key] = true
					kind := "assert"
					if a.Kind != "" {
						kind = a.Kind
					}
					res.Violations = append(res.Violations, Violation{Case: spec, Kind: kind, Label: a.Label, Model: a.Model, Known: a.Known, Trace: ex.decisions})
				}
			}
		}
		for l, ok := range ex.Reach {
			res.ReachSeen[l]++
			if ok {
				res.ReachSat[l]++
			}
		}
		// keep a model of a path deep in the exploration (most branch decisions): the
		// translator validation then exercises non-default outcomes as well
		if out == ODone && len(ex.nondet) > 0 && spec.WantModel && (res.SampleModel == nil || len(ex.decisions) > sampleDepth) {
			if r, m := sol.Check(ex.rangeTerms(), ex.nondet); r == Sat {
				res.SampleModel = m
				sampleDepth = len(ex.decisions)
			}
		}
		switch out {
		case ODone:
		case OInfeas:
			// path pruned by assumptions: not an outcome of the program
		case OBudget, OUnsupp:
			res.Incomplete = string(out) + ": " + ex.detail
		case ODeadlock, OLeak, OPanic:
			key := string(out) + "|" + ex.knownOutcome
			if !seenViol[key] {
				seenViol[key] = true
				_, m := sol.Check(ex.rangeTerms(), ex.nondet)
				if m == nil {
					_, m = sol.Check(nil, ex.nondet)
				}
				res.Violations = append(res.Violations, Violation{Case: spec, Kind: string(out), Label: string(out), Detail: ex.detail, Model: m, Known: ex.knownOutcome, Trace: ex.decisions})
			}
		}
		if len(ex.frozenWrites) > 0 && !seenViol["frozen"] {
			seenViol["frozen"] = true
			_, m := sol.Check(nil, ex.nondet)
			res.Violations = append(res.Violations, Violation{Case: spec, Kind: "frozen-write", Label: "instance-write", Detail: strings.Join(uniq(ex.frozenWrites), "; "), Model: m, Known: ex.knownFrozen, Trace: ex.decisions})
		}
		if spec.Cert && (out == ODone || out == ODeadlock || out == OLeak) {
			// the certificate is a pure order query: discharge it in a clean context,
			// free of the (possibly nonlinear) path condition of the run
			if certSol == nil {
				certSol, _ = NewSolver(sol.TimeoutMs)
			}
			if certSol != nil {
				ex.CertSol = certSol
			}
			c := ex.Certificate()
			if certSol != nil {
				res.certStats.Add(&certSol.Stats)
				certSol.Stats = SolverStats{BySolver: map[string]int{}}
			}
			res.Certs++
			res.CertEvents += c.Events
			res.CertEdges += c.Edges
			res.CertPairs += c.Pairs
			if c.Issued {
				res.CertIssued++
			} else {
				if c.Voided != "" {
					res.CertNotes = append(res.CertNotes, "voided: "+c.Voided)
				}
				for _, r := range c.ChanNondet {
					res.CertNotes = append(res.CertNotes, "unordered: "+r)
				}
				if len(c.Races) > 0 && !seenViol["race"] {
					seenViol["race"] = true
					_, m := sol.Check(nil, ex.nondet)
					res.Violations = append(res.Violations, Violation{Case: spec, Kind: "race", Label: "race", Detail: strings.Join(uniq(c.Races), "; "), Model: m, Known: ex.knownRace, Trace: ex.decisions})
				}
			}
		}
	}
	// a satisfiability obligation is met if it is satisfiable on some path
	var kept []Violation
	for _, v := range res.Violations {
		if v.Kind == "never" {
			if a := res.Asserts[v.Label]; a != nil && a.Holds+a.Trivial > 0 {
				continue
			}
		}
		kept = append(kept, v)
	}
	res.Violations = kept
	res.CertNotes = uniq(res.CertNotes)
	res.Stats = sol.Stats
	res.Stats.BySolver = map[string]int{}
	for k, v := range sol.Stats.BySolver {
		res.Stats.BySolver[k] = v - before.BySolver[k]
	}
	res.Stats.Queries -= before.Queries
	res.Stats.Sat -= before.Sat
	res.Stats.Unsat -= before.Unsat
	res.Stats.Unknown -= before.Unknown
	res.Stats.Errors -= before.Errors
	res.Stats.Fallback -= before.Fallback
	res.Stats.Time -= before.Time
	res.Stats.CrossChecked -= before.CrossChecked
	res.Stats.CrossDisagree -= before.CrossDisagree
	res.Stats.Add(&res.certStats)
	if res.Stats.Errors > 0 && res.Incomplete == "" {
		res.Incomplete = "solver error lines"
	}
	if res.Stats.CrossDisagree > 0 {
		res.Incomplete = "solver disagreement"
	}
	res.Wall = time.Since(t0)
	return res
}

func uniq(xs []string) []string {
	m := map[string]bool{}
	var out []string
	for _, x := range xs {
		if !m[x] {
			m[x] = true
			out = append(out, x)
		}
	}
	sort.Strings(out)
	return out
}

// RunConcrete executes the harness once with every nondeterministic input fixed
// (no forks, no solver decisions) and returns the observed assertion operands.
func RunConcrete(p *Program, sol *Solver, spec CaseSpec, assignment map[string]string) ([]Observation, Outcome, string) {
	entry := p.Func(spec.Pkg, spec.Harness)
	if entry == nil {
		return nil, OUnsupp, "harness not found"
	}
	ex := NewExec(p, sol, spec.FP, nil, nil)
	ex.Concrete = assignment
	ex.IEEE = spec.ZeroDen > 0
	ex.Sched = spec.Sched
	var params []Value
	if spec.Name != "" {
		params = append(params, Str{C: spec.Name})
	}
	for _, v := range spec.Params {
		params = append(params, mkInt(int64(v), 64, false))
	}
	out := ex.Run(entry, params)
	return ex.Obs, out, ex.detail
}
