package sym

import (
	"fmt"
	"go/types"
	"strconv"
	"strings"
	"time"

	"golang.org/x/tools/go/ssa"
)

// Text (de)serialisation of scalars by TOKENS.
//
// strconv.Format* / time.Time.Format of a symbolic value cannot produce its digits;
// they return a fresh token string ("f#3", "i#4", "t#5") and remember the value; the
// matching strconv.Parse* / time.Parse of a token returns that value. Concrete values
// are formatted and parsed by the real strconv. This assumes Parse(Format(x)) == x for
// the standard formatters - exactly the byte-level round trip that is C11's subject and
// is declared out of reach - and lets the code AROUND the conversions (record and
// column handling, header logic, file modes) run for real.

func init() {
	for _, n := range []string{
		"strconv.FormatFloat", "strconv.ParseFloat", "strconv.FormatInt", "strconv.ParseInt",
		"strconv.FormatUint", "strconv.ParseUint", "strconv.FormatBool", "strconv.ParseBool", "time.Parse",
	} {
		intrinsicSet[n] = true
	}
	for _, n := range []string{
		"(reflect.Value).SetString", "(reflect.Value).SetBool", "(reflect.Value).SetInt", "(reflect.Value).SetUint",
		"(reflect.Value).SetFloat", "(reflect.Value).Set", "(reflect.Value).String", "(reflect.Value).Bool",
		"(reflect.Value).Int", "(reflect.Value).Uint", "(reflect.Value).Float", "(reflect.Value).Interface",
	} {
		reflIntrinsics[n] = true
	}
}

func (ex *Exec) newToken(prefix string, v Value) Str {
	if ex.tokens == nil {
		ex.tokens = map[string]Value{}
	}
	t := fmt.Sprintf("%s#%d", prefix, len(ex.tokens)+1)
	ex.tokens[t] = v
	return Str{C: t}
}

func (ex *Exec) tokenValue(s Value, prefix string) (Value, bool) {
	str, ok := s.(Str)
	if !ok || str.T != nil {
		panic(unsupported{"parse of a symbolic string"})
	}
	if !strings.HasPrefix(str.C, prefix+"#") {
		return nil, false
	}
	v, ok := ex.tokens[str.C]
	return v, ok
}

func (ex *Exec) parseError(fnName, s string) Value {
	return ex.mkError(fnName + ": parsing " + strconv.Quote(s) + ": invalid syntax")
}

// serialIntrinsic implements the strconv / time conversions; ok == false: not one of them.
func (ex *Exec) serialIntrinsic(n string, fn *ssa.Function, args []Value) (Value, bool) {
	res := fn.Signature.Results()
	switch n {
	case "strconv.FormatFloat":
		f := args[0].(Flt)
		if f.Sp != spFin {
			return Str{C: spName(f.Sp)}, true
		}
		if f.T != nil || ex.FPMode {
			return ex.newToken("f", f), true
		}
		fl, exact := f.R.Float64()
		if !exact {
			return ex.newToken("f", f), true
		}
		return Str{C: strconv.FormatFloat(fl, byte(ex.concInt(args[1], "fmt")), int(ex.concInt(args[2], "prec")), int(ex.concInt(args[3], "bitSize")))}, true
	case "strconv.ParseFloat":
		if v, ok := ex.tokenValue(args[0], "f"); ok {
			return Tuple{v, Iface{}}, true
		}
		s := strArg(args[0])
		fl, err := strconv.ParseFloat(s, int(ex.concInt(args[1], "bitSize")))
		if err != nil || fl != fl || fl > 1e300 || fl < -1e300 {
			return Tuple{ex.fltC(0, 64), ex.parseError("strconv.ParseFloat", s)}, true
		}
		return Tuple{ex.fltC(fl, 64), Iface{}}, true
	case "strconv.FormatInt", "strconv.FormatUint":
		i := args[0].(Int)
		if i.T != nil {
			return ex.newToken("i", i), true
		}
		base := int(ex.concInt(args[1], "base"))
		if n == "strconv.FormatUint" {
			return Str{C: strconv.FormatUint(uint64(i.C), base)}, true
		}
		return Str{C: strconv.FormatInt(i.C, base)}, true
	case "strconv.ParseInt", "strconv.ParseUint":
		uns := n == "strconv.ParseUint"
		if v, ok := ex.tokenValue(args[0], "i"); ok {
			iv := v.(Int)
			return Tuple{Int{Bits: 64, Uns: uns, C: iv.C, T: iv.T}, Iface{}}, true
		}
		s := strArg(args[0])
		base, bits := int(ex.concInt(args[1], "base")), int(ex.concInt(args[2], "bitSize"))
		if uns {
			u, err := strconv.ParseUint(s, base, bits)
			if err != nil {
				return Tuple{mkInt(0, 64, true), ex.parseError(n, s)}, true
			}
			return Tuple{mkInt(int64(u), 64, true), Iface{}}, true
		}
		v, err := strconv.ParseInt(s, base, bits)
		if err != nil {
			return Tuple{mkInt(0, 64, false), ex.parseError(n, s)}, true
		}
		return Tuple{mkInt(v, 64, false), Iface{}}, true
	case "strconv.FormatBool":
		b := args[0].(Bool)
		if b.T != nil {
			return ex.newToken("b", b), true
		}
		return Str{C: strconv.FormatBool(b.C)}, true
	case "strconv.ParseBool":
		if v, ok := ex.tokenValue(args[0], "b"); ok {
			return Tuple{v, Iface{}}, true
		}
		s := strArg(args[0])
		b, err := strconv.ParseBool(s)
		if err != nil {
			return Tuple{Bool{}, ex.parseError(n, s)}, true
		}
		return Tuple{Bool{C: b}, Iface{}}, true
	case "(time.Time).Format":
		return ex.newToken("t", copyVal(args[0])), true
	case "time.Parse":
		if v, ok := ex.tokenValue(args[1], "t"); ok {
			return Tuple{copyVal(v), Iface{}}, true
		}
		layout, s := strArg(args[0]), strArg(args[1])
		t := ex.zero(res.At(0).Type()).(Struct)
		tm, err := time.Parse(layout, s)
		if err != nil {
			return Tuple{t, ex.parseError("time.Parse", s)}, true
		}
		t[1] = mkInt(int64(tm.Sub(time.Date(2000, 1, 1, 0, 0, 0, 0, time.UTC)).Hours()/24), 64, false)
		return Tuple{t, Iface{}}, true
	}
	return nil, false
}

// reflValueOp: reading and writing a value through the reflect model.
func (ex *Exec) reflValueOp(n string, args []Value) (Value, bool) {
	name := strings.TrimPrefix(n, "(reflect.Value).")
	if name == n {
		return nil, false
	}
	switch name {
	case "SetString", "SetBool", "SetInt", "SetUint", "SetFloat":
		v := args[0].(reflValue)
		if v.p == nil {
			panic(goPanic{"reflect: call of reflect.Value." + name + " on zero Value"})
		}
		want := map[string]func(types.Type) bool{
			"SetString": func(t types.Type) bool { b, ok := t.Underlying().(*types.Basic); return ok && b.Kind() == types.String },
			"SetBool":   func(t types.Type) bool { b, ok := t.Underlying().(*types.Basic); return ok && b.Kind() == types.Bool },
			"SetInt":    func(t types.Type) bool { _, u, ok := intInfo(t); return ok && !u },
			"SetUint":   func(t types.Type) bool { _, u, ok := intInfo(t); return ok && u },
			"SetFloat":  func(t types.Type) bool { _, ok := floatBits(t); return ok },
		}[name]
		if !want(v.t) {
			panic(goPanic{"reflect: call of reflect.Value." + name + " on " + v.t.String() + " Value"})
		}
		nv := args[1]
		if name == "SetInt" || name == "SetUint" || name == "SetFloat" {
			nv = ex.convert(args[1], nil, v.t)
		}
		ex.write(v.p, nv)
		return nil, true
	case "Set":
		v, x := args[0].(reflValue), args[1].(reflValue)
		if v.p == nil || x.p == nil {
			panic(goPanic{"reflect: call of reflect.Value.Set on zero Value"})
		}
		if !types.Identical(v.t, x.t) {
			panic(goPanic{"reflect.Set: value of type " + x.t.String() + " is not assignable to type " + v.t.String()})
		}
		ex.write(v.p, copyVal(*x.p))
		return nil, true
	case "String":
		v := args[0].(reflValue)
		if s, ok := (*v.p).(Str); ok {
			return s, true
		}
		return Str{C: "<" + v.t.String() + " Value>"}, true
	case "Bool":
		return (*args[0].(reflValue).p).(Bool), true
	case "Int":
		return ex.convert(*args[0].(reflValue).p, nil, types.Typ[types.Int64]), true
	case "Uint":
		return ex.convert(*args[0].(reflValue).p, nil, types.Typ[types.Uint64]), true
	case "Float":
		return ex.convert(*args[0].(reflValue).p, nil, types.Typ[types.Float64]), true
	case "Interface":
		v := args[0].(reflValue)
		if v.p == nil {
			panic(goPanic{"reflect: call of reflect.Value.Interface on zero Value"})
		}
		return Iface{T: v.t, V: copyVal(*v.p)}, true
	}
	return nil, false
}

// ---- calendar fields in the day-number model of time.Time ----
//
// (time.Time).Year / YearDay / Month / Day / Weekday of day number d (days since
// 2000-01-01): exact for concrete d; for symbolic d an if-then-else chain over the
// year (month) boundaries 2000-01-01 .. 2030-12-31, a fresh unknown beyond.

func init() {
	for _, n := range []string{"(time.Time).Year", "(time.Time).YearDay", "(time.Time).Month", "(time.Time).Day", "(time.Time).Weekday"} {
		intrinsicSet[n] = true
	}
}

var calEpoch = time.Date(2000, 1, 1, 0, 0, 0, 0, time.UTC)

func dayNo(t time.Time) int64 { return int64(t.Sub(calEpoch).Hours() / 24) }

func (ex *Exec) calendarIntrinsic(n string, args []Value) (Value, bool) {
	if !strings.HasPrefix(n, "(time.Time).") {
		return nil, false
	}
	field := strings.TrimPrefix(n, "(time.Time).")
	switch field {
	case "Year", "YearDay", "Month", "Day", "Weekday":
	default:
		return nil, false
	}
	d := args[0].(Struct)[1].(Int)
	conc := func(t time.Time) int64 {
		switch field {
		case "Year":
			return int64(t.Year())
		case "YearDay":
			return int64(t.YearDay())
		case "Month":
			return int64(t.Month())
		case "Day":
			return int64(t.Day())
		}
		return int64(t.Weekday())
	}
	if d.T == nil {
		return mkInt(conc(calEpoch.AddDate(0, 0, int(d.C))), 64, false), true
	}
	ts := ex.TS
	if field == "Weekday" {
		// 2000-01-01 was a Saturday (6); valid for d >= 0
		return ex.intOf(ts.Op(SBV64, "bvurem", ts.Op(SBV64, "bvadd", d.T, ts.BVC(6, 64)), ts.BVC(7, 64)), 64, false), true
	}
	// segments on which the field is constant (Year, Month) or d - start + 1 (YearDay, Day)
	byMonth := field == "Month" || field == "Day"
	ex.fresh++
	res := ts.Var(fmt.Sprintf("cal!%d", ex.fresh), SBV64) // beyond the table
	ex.Info["calendar_model"] = "if-then-else over 2000..2030"
	var starts []time.Time // ascending
	for y := 2000; y <= 2030; y++ {
		if byMonth {
			for m := 1; m <= 12; m++ {
				starts = append(starts, time.Date(y, time.Month(m), 1, 0, 0, 0, 0, time.UTC))
			}
		} else {
			starts = append(starts, time.Date(y, 1, 1, 0, 0, 0, 0, time.UTC))
		}
	}
	end := time.Date(2031, 1, 1, 0, 0, 0, 0, time.UTC)
	inRange := ts.And(ts.BVCmp("bvsge", d.T, ts.BVC(0, 64)), ts.BVCmp("bvslt", d.T, ts.BVC(dayNo(end), 64)))
	var chain *Term
	for i, s := range starts { // the segment with the largest start <= d wins
		var v *Term
		switch field {
		case "Year", "Month":
			v = ts.BVC(conc(s), 64)
		default:
			v = ts.Op(SBV64, "bvadd", ts.Op(SBV64, "bvsub", d.T, ts.BVC(dayNo(s), 64)), ts.BVC(1, 64))
		}
		if i == 0 {
			chain = v
		} else {
			chain = ts.Ite(ts.BVCmp("bvsge", d.T, ts.BVC(dayNo(s), 64)), v, chain)
		}
	}
	return ex.intOf(ts.Ite(inRange, chain, res), 64, false), true
}

// ---- package strings on concrete strings ----

func init() {
	for _, n := range []string{"strings.Cut", "strings.Index", "strings.LastIndex", "strings.IndexByte", "strings.Split", "strings.SplitN",
		"strings.TrimPrefix", "strings.TrimSpace", "strings.Trim", "strings.TrimLeft", "strings.TrimRight", "strings.ToLower", "strings.ToUpper",
		"strings.EqualFold", "strings.Replace", "strings.ReplaceAll", "strings.Fields", "strings.Count", "strings.Repeat", "strings.CutPrefix", "strings.CutSuffix"} {
		intrinsicSet[n] = true
	}
}

func strSlice(xs []string) Value {
	a := make([]Value, len(xs))
	for i, x := range xs {
		a[i] = Str{C: x}
	}
	if len(a) == 0 {
		return Slice{A: []Value{}}
	}
	return Slice{A: a}
}

// stringsIntrinsic: functions of package strings evaluated on concrete arguments
// (strArg panics "unsupported" for a symbolic string).
func (ex *Exec) stringsIntrinsic(n string, args []Value) (Value, bool) {
	if !strings.HasPrefix(n, "strings.") {
		return nil, false
	}
	s := func(i int) string { return strArg(args[i]) }
	k := func(i int) int { return int(ex.concInt(args[i], n)) }
	switch n {
	case "strings.Cut":
		a, b, ok := strings.Cut(s(0), s(1))
		return Tuple{Str{C: a}, Str{C: b}, Bool{C: ok}}, true
	case "strings.CutPrefix":
		a, ok := strings.CutPrefix(s(0), s(1))
		return Tuple{Str{C: a}, Bool{C: ok}}, true
	case "strings.CutSuffix":
		a, ok := strings.CutSuffix(s(0), s(1))
		return Tuple{Str{C: a}, Bool{C: ok}}, true
	case "strings.Index":
		return mkInt(int64(strings.Index(s(0), s(1))), 64, false), true
	case "strings.LastIndex":
		return mkInt(int64(strings.LastIndex(s(0), s(1))), 64, false), true
	case "strings.IndexByte":
		return mkInt(int64(strings.IndexByte(s(0), byte(k(1)))), 64, false), true
	case "strings.Count":
		return mkInt(int64(strings.Count(s(0), s(1))), 64, false), true
	case "strings.Split":
		return strSlice(strings.Split(s(0), s(1))), true
	case "strings.SplitN":
		return strSlice(strings.SplitN(s(0), s(1), k(2))), true
	case "strings.Fields":
		return strSlice(strings.Fields(s(0))), true
	case "strings.TrimPrefix":
		return Str{C: strings.TrimPrefix(s(0), s(1))}, true
	case "strings.TrimSpace":
		return Str{C: strings.TrimSpace(s(0))}, true
	case "strings.Trim":
		return Str{C: strings.Trim(s(0), s(1))}, true
	case "strings.TrimLeft":
		return Str{C: strings.TrimLeft(s(0), s(1))}, true
	case "strings.TrimRight":
		return Str{C: strings.TrimRight(s(0), s(1))}, true
	case "strings.ToLower":
		return Str{C: strings.ToLower(s(0))}, true
	case "strings.ToUpper":
		return Str{C: strings.ToUpper(s(0))}, true
	case "strings.EqualFold":
		return Bool{C: strings.EqualFold(s(0), s(1))}, true
	case "strings.Replace":
		return Str{C: strings.Replace(s(0), s(1), s(2), k(3))}, true
	case "strings.ReplaceAll":
		return Str{C: strings.ReplaceAll(s(0), s(1), s(2))}, true
	case "strings.Repeat":
		return Str{C: strings.Repeat(s(0), k(1))}, true
	}
	return nil, false
}
