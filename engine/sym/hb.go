package sym

import (
	"fmt"
	"os"
	"strings"
)

// segment of a goroutine between two consecutive synchronisation events.
type segment struct {
	g    int
	prev *Event
	next *Event
}

type memAcc struct {
	seg   *segment
	write bool
	where string
}

// Cert is the partial-order certificate of one run.
type Cert struct {
	Events     int
	Edges      int
	Pairs      int      // conflicting pairs examined
	Issued     bool     // every conflicting pair is ordered in all linearisations
	Races      []string // unordered conflicting memory accesses
	ChanNondet []string // unordered operations on one channel endpoint / lock
	Voided     string   // reason the certificate cannot be issued at all
	Result     string
}

// RawQuery runs a self-contained query in a nested scope.
func (s *Solver) RawQuery(lines []string) Result {
	if s.dead {
		s.Reset() // restarts the process
	}
	s.Stats.Queries++
	s.send("(push 1)")
	for _, l := range lines {
		s.send(l)
	}
	s.send("(check-sat)")
	out, err := s.readUntilMarker()
	s.send("(pop 1)")
	res := Unknown
	for _, l := range out {
		switch {
		case strings.HasPrefix(l, "(error"):
			err = fmt.Errorf("%s", l)
		case l == "sat":
			res = Sat
		case l == "unsat":
			res = Unsat
		}
	}
	if err != nil {
		s.Stats.Errors++
		res = Unknown
	}
	switch res {
	case Sat:
		s.Stats.Sat++
	case Unsat:
		s.Stats.Unsat++
	default:
		s.Stats.Unknown++
	}
	s.Stats.BySolver["z3"]++
	return res
}

type hbPair struct {
	a, b int // node ids: a observed before b; query: can b precede a?
	what string
	mem  bool
}

// Certificate checks that all conflicting operations of the run are ordered.
func (ex *Exec) Certificate() *Cert {
	c := &Cert{Events: len(ex.events), Edges: len(ex.edges)}
	if ex.usedLenCh {
		c.Voided = "len(chan) used"
	}
	if ex.Prog.HasSelect {
		c.Voided = "select present in module"
	}
	// union-find over rendezvous pairs
	parent := make([]int, len(ex.events))
	for i := range parent {
		parent[i] = i
	}
	var find func(int) int
	find = func(x int) int {
		for parent[x] != x {
			parent[x] = parent[parent[x]]
			x = parent[x]
		}
		return x
	}
	for _, r := range ex.rdv {
		a, b := find(r[0]), find(r[1])
		if a != b {
			parent[b] = a
		}
	}
	var pairs []hbPair
	// An operation b can be pending as soon as its program-order predecessor has
	// happened; two operations on one endpoint are ordered in every schedule only
	// if a completes before b can even be initiated: a happens-before po(b).
	// (Using b itself would bake the observed matching of b into the question.)
	init := func(b *Event) int {
		if b.po != nil {
			return find(b.po.id)
		}
		return find(b.id)
	}
	// channel endpoints
	type chanOps struct {
		recvs, sends []*Event
	}
	byCh := map[*ChanObj]*chanOps{}
	var chOrder []*ChanObj
	for _, e := range ex.events {
		if e.ch == nil {
			continue
		}
		co := byCh[e.ch]
		if co == nil {
			co = &chanOps{}
			byCh[e.ch] = co
			chOrder = append(chOrder, e.ch)
		}
		switch e.kind {
		case "recv", "recvclosed":
			co.recvs = append(co.recvs, e)
		case "send", "close":
			co.sends = append(co.sends, e)
		}
	}
	for _, ch := range chOrder {
		co := byCh[ch]
		// every receive b against the latest earlier value-receive of each other
		// goroutine (b could have taken that value if it can be pending early enough)
		for j, b := range co.recvs {
			seen := map[int]bool{}
			for i := j - 1; i >= 0; i-- {
				a := co.recvs[i]
				if a.g == b.g || a.kind != "recv" || seen[a.g] {
					continue
				}
				seen[a.g] = true
				pairs = append(pairs, hbPair{find(a.id), init(b), fmt.Sprintf("receives on chan#%d by g%d and g%d", ch.id, a.g, b.g), false})
			}
		}
		// every send/close b against the latest earlier send/close of each other goroutine
		for j, b := range co.sends {
			seen := map[int]bool{}
			for i := j - 1; i >= 0; i-- {
				a := co.sends[i]
				if a.g == b.g || seen[a.g] {
					continue
				}
				seen[a.g] = true
				pairs = append(pairs, hbPair{find(a.id), init(b), fmt.Sprintf("%s/%s on chan#%d by g%d and g%d", a.kind, b.kind, ch.id, a.g, b.g), false})
			}
		}
	}
	// locks: acquisition order of one mutex by different goroutines
	// (two read locks commute: a read lock is compared with the last write lock only,
	// a write lock with the last write lock and with every read lock since)
	lastLock := map[*Value]*Event{}
	readSince := map[*Value][]*Event{}
	for _, e := range ex.lockOrder {
		if p := lastLock[e.cell]; p != nil && p.g != e.g {
			pairs = append(pairs, hbPair{find(p.id), init(e), fmt.Sprintf("lock acquisitions by g%d and g%d", p.g, e.g), false})
		}
		if e.kind == "rlock" {
			readSince[e.cell] = append(readSince[e.cell], e)
			continue
		}
		for _, r := range readSince[e.cell] {
			if r.g != e.g {
				pairs = append(pairs, hbPair{find(r.id), init(e), fmt.Sprintf("lock acquisitions by g%d and g%d", r.g, e.g), false})
			}
		}
		readSince[e.cell] = nil
		lastLock[e.cell] = e
	}
	// memory cells
	for _, p := range ex.memOrder {
		accs := ex.memAcc[p]
		multi := false
		for _, a := range accs[1:] {
			if a.seg.g != accs[0].seg.g {
				multi = true
				break
			}
		}
		if !multi {
			continue
		}
		for j := 1; j < len(accs); j++ {
			b := accs[j]
			seenG := map[int]bool{}
			for i := j - 1; i >= 0; i-- {
				a := accs[i]
				if a.seg.g == b.seg.g || !(a.write || b.write) {
					continue
				}
				key := a.seg.g
				if a.write {
					key = a.seg.g*2 + 1
				} else {
					key = a.seg.g * 2
				}
				if seenG[key] {
					continue
				}
				seenG[key] = true
				if a.seg.next == nil || b.seg.prev == nil {
					pairs = append(pairs, hbPair{-1, -1, fmt.Sprintf("accesses at %s (g%d) and %s (g%d)", a.where, a.seg.g, b.where, b.seg.g), true})
					continue
				}
				na, pb := find(a.seg.next.id), find(b.seg.prev.id)
				if na == pb {
					continue
				}
				pairs = append(pairs, hbPair{na, pb, fmt.Sprintf("accesses at %s (g%d) and %s (g%d)", a.where, a.seg.g, b.where, b.seg.g), true})
			}
		}
	}
	c.Pairs = len(pairs)
	if os.Getenv("VERIF_DEBUG_HB") != "" {
		for _, e := range ex.events {
			fmt.Fprintf(os.Stderr, "ev %d g%d %s node=%d\n", e.id, e.g, e.kind, find(e.id))
		}
		for _, e := range ex.edges {
			fmt.Fprintf(os.Stderr, "edge %d -> %d\n", find(e[0]), find(e[1]))
		}
		for _, p := range pairs {
			fmt.Fprintf(os.Stderr, "pair a=%d b=%d %s\n", p.a, p.b, p.what)
		}
	}
	if len(pairs) == 0 {
		c.Issued = c.Voided == ""
		c.Result = "no conflicting pairs"
		return c
	}
	// encode
	var lines []string
	declared := map[int]bool{}
	decl := func(n int) {
		if !declared[n] {
			declared[n] = true
			lines = append(lines, fmt.Sprintf("(declare-const e%d Int)", n))
		}
	}
	for _, e := range ex.edges {
		a, b := find(e[0]), find(e[1])
		if a == b {
			continue
		}
		decl(a)
		decl(b)
		lines = append(lines, fmt.Sprintf("(assert (< e%d e%d))", a, b))
	}
	// sanity: the observed order must be consistent
	var open []hbPair
	for _, p := range pairs {
		if p.a < 0 {
			open = append(open, p)
			continue
		}
		if p.a == p.b {
			continue // same instant: ordered
		}
		decl(p.a)
		decl(p.b)
	}
	report := func(p hbPair) {
		if p.mem {
			c.Races = append(c.Races, p.what)
		} else {
			c.ChanNondet = append(c.ChanNondet, p.what)
		}
	}
	for _, p := range open {
		report(p)
	}
	// memory pairs and endpoint pairs are discharged as two disjunctions; only a
	// satisfiable group is split into per-pair queries
	for _, mem := range []bool{true, false} {
		var dj []string
		var grp []hbPair
		for _, p := range pairs {
			if p.a < 0 || p.a == p.b || p.mem != mem {
				continue
			}
			dj = append(dj, fmt.Sprintf("(< e%d e%d)", p.b, p.a))
			grp = append(grp, p)
		}
		if len(dj) == 0 {
			continue
		}
		q := append(append([]string(nil), lines...), "(assert (or "+strings.Join(dj, " ")+" false))")
		switch ex.certSolver().RawQuery(q) {
		case Unsat:
		case Unknown:
			c.Voided = "solver unknown on certificate"
		case Sat:
			seen := map[[2]int]bool{}
			for _, p := range grp {
				k := [2]int{p.a, p.b}
				if seen[k] {
					continue
				}
				seen[k] = true
				q := append(append([]string(nil), lines...), fmt.Sprintf("(assert (< e%d e%d))", p.b, p.a))
				if ex.certSolver().RawQuery(q) != Unsat {
					report(p)
					if mem && len(c.Races) >= 8 {
						break
					}
				}
			}
		}
	}
	// the observed edge set itself must be satisfiable (acyclic), else our log is wrong
	if ex.certSolver().RawQuery(lines) != Sat {
		c.Voided = "inconsistent event log"
	}
	c.Issued = c.Voided == "" && len(c.Races) == 0 && len(c.ChanNondet) == 0
	return c
}

func (ex *Exec) certSolver() *Solver {
	if ex.CertSol != nil {
		return ex.CertSol
	}
	return ex.Sol
}
