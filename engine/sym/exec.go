package sym

import (
	"fmt"
	"go/types"
	"sync"
	"time"

	"golang.org/x/tools/go/ssa"
)

type unsupported struct{ what string }
type mergeAbort struct{ why string }
type goPanic struct{ what string }
type budgetExceeded struct{}
type infeasible struct{}

// fnInfo caches register numbering and post-dominators per function.
type fnInfo struct {
	idx    map[ssa.Value]int
	n      int
	ipdom  map[*ssa.BasicBlock]*ssa.BasicBlock // nil value = virtual exit
	pdOK   bool
	liveIn map[*ssa.BasicBlock]map[int]bool
	mu     sync.Mutex
	alt    map[*ssa.BasicBlock]*ssa.BasicBlock
}

var fnInfos sync.Map

func infoOf(fn *ssa.Function) *fnInfo {
	if v, ok := fnInfos.Load(fn); ok {
		return v.(*fnInfo)
	}
	fi := &fnInfo{idx: map[ssa.Value]int{}, alt: map[*ssa.BasicBlock]*ssa.BasicBlock{}}
	add := func(v ssa.Value) {
		fi.idx[v] = fi.n
		fi.n++
	}
	for _, p := range fn.Params {
		add(p)
	}
	for _, p := range fn.FreeVars {
		add(p)
	}
	for _, b := range fn.Blocks {
		for _, in := range b.Instrs {
			if v, ok := in.(ssa.Value); ok {
				add(v)
			}
		}
	}
	fi.ipdom = computeIPDom(fn)
	fi.liveIn = computeLiveIn(fn, fi.idx)
	v, _ := fnInfos.LoadOrStore(fn, fi)
	return v.(*fnInfo)
}

type deferred struct {
	fn    Value
	args  []Value
	instr *ssa.Defer
}

type Frame struct {
	fn     *ssa.Function
	info   *fnInfo
	regs   []Value
	block  *ssa.BasicBlock
	prev   *ssa.BasicBlock
	pc     int
	defers []*deferred
	// where to put the result in the caller (nil = discard)
	retTo    ssa.Value
	isDefer  bool
	phiOv    []Value // merged phi inputs pending for the block just entered
	hasPhiOv bool
}

type gStatus int

const (
	gRunnable gStatus = iota
	gBlocked
	gDone
)

// G is a simulated goroutine.
type G struct {
	id        int
	frames    []*Frame
	status    gStatus
	waitCh    *ChanObj
	waitWG    *Value
	waitWhat  string
	lastEv    *Event
	startEv   *Event
	spawnSite string
	seg       *segment
}

// Outcome of one run (path).
type Outcome string

const (
	ODone     Outcome = "done"
	ODeadlock Outcome = "deadlock"
	OLeak     Outcome = "leak"
	OPanic    Outcome = "panic"
	OBudget   Outcome = "budget"
	OUnsupp   Outcome = "unsupported"
	OInfeas   Outcome = "infeasible"
)

// Observation is the value of an assertion's left operand in concrete mode.
type Observation struct {
	Label string
	Val   string
}

// AssertRec records the verdicts for one assertion label on one path.
type AssertRec struct {
	Label  string
	Result string // holds | violated | unknown | trivial
	Model  map[string]string
	Known  string // known-finding id ("" for plain asserts)
	Kind   string // "" = assert; "never" = satisfiability obligation
}

// Exec is the state of one run (one path) of one case.
type Exec struct {
	Prog    *Program
	TS      *TermStore
	Sol     *Solver
	CertSol *Solver // separate clean context for the partial-order certificate
	FPMode  bool

	gs       []*G
	cur      *G
	nextCh   int
	steps    int
	MaxSteps int

	// path condition
	pc        []*Term
	sideConds int
	guards    []*Term // speculative guards (merge arms)

	// decision trace
	trace           []bool
	pos             int
	newAlts         [][]bool
	decisions       []bool
	unknownBranches int

	// merge
	spec        int
	undo        *[]undoRec
	noMerge     map[*ssa.BasicBlock]bool
	noMergeAlt  map[*ssa.BasicBlock]bool
	merges      int
	armDepths   []int
	armRet      Value
	hasArmRet   bool
	mergeAborts int
	freshSlots  map[*Value]bool // slots allocated inside speculative arms
	tokens      map[string]Value // text tokens of symbolic scalars (serial.go)

	// results
	Asserts    []AssertRec
	Reach      map[string]bool
	Info       map[string]string
	outcome    Outcome
	detail     string
	globals    map[*ssa.Global]*Value
	nondet     []*Term
	nondetSeen map[string]bool

	// happens-before log
	events    []*Event
	edges     [][2]int
	memAcc    map[*Value][]memAcc
	memOrder  []*Value
	trackMem  bool
	usedLenCh bool

	// C09 write-set
	frozen       map[*Value]bool
	frozenWrites []string

	rdv                                  [][2]int
	MapOrder                             func([]Value) []Value
	mapCellTab                           map[*MapObj]*Value
	syncTab                              map[*Value]*syncState
	lockOrder                            []*Event
	nAssume                              int
	knownOutcome, knownFrozen, knownRace string
	deadline                             time.Time
	knownSeen                            map[string]bool
	dynStubs                             map[string]*Closure
	atomics                              map[*Value]Value
	atomicLast                           map[*Value]*Event
	Concrete                             map[string]string // concrete mode: assignment of the nondet inputs
	Obs                                  []Observation
	NoMerge                              bool
	Sched                                int  // scheduling policy (see pick)
	yield                                bool // policy 2: re-pick after every completed channel operation
	SkipReach                            bool // termination-only cases: Reach points are recorded without a satisfiability query
	ZeroDen                              int  // zero-denominator exploration budget (see fltBinop QUO)
	zeroDenUsed                          int
	IEEE                                 bool // zero-denominator exploration: quotients by zero are IEEE specials (special.go)
	MergeBudget                          int
	SkipInits                            bool
	inInit                               bool
	stubs                                map[string]bool
	funcs                                map[*ssa.Function]bool
	entryDone                            bool
	fresh                                int
	inputRanges                          bool
}

type undoRec struct {
	p   *Value
	old Value
}

func (ex *Exec) reg(f *Frame, v ssa.Value) Value {
	switch x := v.(type) {
	case *ssa.Const:
		return ex.constVal(x)
	case *ssa.Function:
		return &Closure{Fn: x}
	case *ssa.Builtin:
		return &Closure{Builtin: x}
	case *ssa.Global:
		return Ptr{P: ex.global(x)}
	}
	i, ok := f.info.idx[v]
	if !ok {
		panic(unsupported{fmt.Sprintf("no register for %v in %v", v, f.fn)})
	}
	return f.regs[i]
}

func (ex *Exec) setReg(f *Frame, v ssa.Value, val Value) {
	f.regs[f.info.idx[v]] = val
}

func (ex *Exec) global(g *ssa.Global) *Value {
	if p, ok := ex.globals[g]; ok {
		return p
	}
	p := new(Value)
	et := g.Type().(*types.Pointer).Elem()
	*p = ex.zero(et)
	// sentinel errors of packages whose initialisers are not executed (io.EOF,
	// sql.ErrNoRows, ...): unique non-nil opaque error values
	if g.Pkg != nil && !isModulePkg(g.Pkg.Pkg.Path()) && types.Identical(et, types.Universe.Lookup("error").Type()) {
		*p = ex.mkError(g.Pkg.Pkg.Path() + "." + g.Name())
	}
	ex.globals[g] = p
	return p
}

// write stores into a slot (logged for undo in speculative mode).
func (ex *Exec) write(p *Value, v Value) {
	if ex.undo != nil {
		*ex.undo = append(*ex.undo, undoRec{p, *p})
	}
	if ex.frozen != nil && ex.frozen[p] {
		ex.frozenWrites = append(ex.frozenWrites, ex.where())
	}
	*p = v
}

func (ex *Exec) where() string {
	if ex.cur == nil || len(ex.cur.frames) == 0 {
		return "?"
	}
	f := ex.cur.frames[len(ex.cur.frames)-1]
	pos := ""
	if f.block != nil && f.pc < len(f.block.Instrs) {
		p := ex.Prog.Fset.Position(f.block.Instrs[f.pc].Pos())
		if p.IsValid() {
			pos = fmt.Sprintf(" %s:%d", p.Filename, p.Line)
		}
	}
	return f.fn.String() + pos
}

func (ex *Exec) newFrame(fn *ssa.Function, args []Value, env []Value) *Frame {
	if fn.Blocks == nil {
		panic(unsupported{"function without body: " + fn.String()})
	}
	ex.funcs[fn] = true
	fi := infoOf(fn)
	f := &Frame{fn: fn, info: fi, regs: make([]Value, fi.n), block: fn.Blocks[0]}
	for i, p := range fn.Params {
		f.regs[fi.idx[p]] = args[i]
	}
	for i, p := range fn.FreeVars {
		f.regs[fi.idx[p]] = env[i]
	}
	return f
}

func (ex *Exec) spawn(fn Value, args []Value, site string) *G {
	g := &G{id: len(ex.gs), spawnSite: site}
	ex.gs = append(ex.gs, g)
	cl := fn.(*Closure)
	if cl.Fn == nil {
		panic(unsupported{"go on builtin"})
	}
	if ex.isIntrinsic(cl.Fn) {
		panic(unsupported{"go on intrinsic " + cl.Fn.String()})
	}
	g.frames = []*Frame{ex.newFrame(cl.Fn, args, cl.Env)}
	return g
}

// Run executes entry(params...) along the decision trace; returns the outcome.
func (ex *Exec) Run(entry *ssa.Function, params []Value) (out Outcome) {
	defer func() {
		if r := recover(); r != nil {
			switch x := r.(type) {
			case unsupported:
				ex.outcome, ex.detail = OUnsupp, x.what
			case goPanic:
				ex.outcome, ex.detail = OPanic, x.what+" at "+ex.where()
			case budgetExceeded:
				ex.outcome, ex.detail = OBudget, "step budget"
			case infeasible:
				ex.outcome, ex.detail = OInfeas, "path condition became unsatisfiable"
			case mergeAbort:
				ex.outcome, ex.detail = OUnsupp, "merge abort escaped: "+x.why
			default:
				panic(r)
			}
			out = ex.outcome
		}
	}()
	ex.runInits()
	main := ex.spawn(&Closure{Fn: entry}, params, "entry")
	main.startEv = ex.newEvent(main, "start", nil, nil)
	ex.schedule(main)
	return ex.outcome
}

// schedule runs goroutines until quiescence and classifies the outcome.
func (ex *Exec) schedule(main *G) {
	for {
		g := ex.cur
		if g == nil || g.status != gRunnable || ex.yield {
			ex.yield = false
			g = ex.pick()
			if g == nil {
				break
			}
			ex.cur = g
		}
		ex.step(g)
	}
	blocked := 0
	var who string
	for _, g := range ex.gs {
		if g.status == gBlocked {
			blocked++
			if who == "" {
				who = fmt.Sprintf("g%d(%s) blocked on %s", g.id, g.spawnSite, g.waitWhat)
				if len(g.frames) > 0 {
					ex.cur = g
					who += " at " + ex.where()
				}
			}
		}
	}
	switch {
	case main.status != gDone:
		ex.outcome, ex.detail = ODeadlock, who
	case blocked > 0:
		ex.outcome, ex.detail = OLeak, fmt.Sprintf("%d goroutine(s) left: %s", blocked, who)
	default:
		ex.outcome = ODone
	}
}

// pick chooses the next runnable goroutine according to the scheduling policy:
// 0: lowest id; 1: highest id; 2: round robin starting after the current one.
func (ex *Exec) pick() *G {
	n := len(ex.gs)
	switch ex.Sched {
	case 1:
		for i := n - 1; i >= 0; i-- {
			if ex.gs[i].status == gRunnable {
				return ex.gs[i]
			}
		}
	case 2:
		start := 0
		if ex.cur != nil {
			start = ex.cur.id + 1
		}
		for k := 0; k < n; k++ {
			c := ex.gs[(start+k)%n]
			if c.status == gRunnable {
				return c
			}
		}
	default:
		for _, c := range ex.gs {
			if c.status == gRunnable {
				return c
			}
		}
	}
	return nil
}

// runUntil steps g until frame depth drops below depth, or frame at depth
// enters stop (pc==0), used by speculative arms.
func (ex *Exec) runUntil(g *G, depth int, stop *ssa.BasicBlock) (returned bool) {
	for {
		if len(g.frames) < depth {
			return true
		}
		if len(g.frames) == depth {
			f := g.frames[depth-1]
			if stop != nil && f.block == stop && f.pc == 0 {
				return false
			}
		}
		if g.status != gRunnable {
			panic(mergeAbort{"blocked in arm"})
		}
		ex.step(g)
	}
}

func (ex *Exec) top(g *G) *Frame { return g.frames[len(g.frames)-1] }

// step executes one instruction of g.
func (ex *Exec) step(g *G) {
	ex.steps++
	if ex.steps > ex.MaxSteps {
		panic(budgetExceeded{})
	}
	if ex.steps&0xfff == 0 && !ex.deadline.IsZero() && time.Now().After(ex.deadline) {
		panic(budgetExceeded{})
	}
	f := g.frames[len(g.frames)-1]
	in := f.block.Instrs[f.pc]
	ex.exec(g, f, in)
}

// jump transfers control within a frame, evaluating phis of the target.
func (ex *Exec) jump(f *Frame, to *ssa.BasicBlock) {
	f.phiOv, f.hasPhiOv = nil, false
	f.prev = f.block
	f.block = to
	f.pc = 0
}

// doPhis evaluates the phi nodes of the current block in parallel.
func (ex *Exec) doPhis(f *Frame) {
	b := f.block
	if f.hasPhiOv {
		for i, v := range f.phiOv {
			ex.setReg(f, b.Instrs[i].(*ssa.Phi), v)
		}
		f.pc = len(f.phiOv)
		f.phiOv, f.hasPhiOv = nil, false
		return
	}
	var idx int
	for i, p := range b.Preds {
		if p == f.prev {
			idx = i
			break
		}
	}
	var vals []Value
	n := 0
	for _, in := range b.Instrs {
		phi, ok := in.(*ssa.Phi)
		if !ok {
			break
		}
		vals = append(vals, ex.reg(f, phi.Edges[idx]))
		n++
	}
	for i := 0; i < n; i++ {
		ex.setReg(f, b.Instrs[i].(*ssa.Phi), vals[i])
	}
	f.pc = n
}

// ret pops the top frame of g delivering the result.
func (ex *Exec) ret(g *G, result Value) {
	f := g.frames[len(g.frames)-1]
	g.frames = g.frames[:len(g.frames)-1]
	if len(g.frames) == 0 {
		g.status = gDone
		ex.newEvent(g, "end", nil, nil)
		return
	}
	caller := g.frames[len(g.frames)-1]
	if f.isDefer {
		return // RunDefers re-executes
	}
	if f.retTo != nil {
		ex.setReg(caller, f.retTo, result)
	}
	caller.pc++
}

// ---- path condition ----

func (ex *Exec) assume(t *Term) {
	if len(ex.guards) > 0 {
		g := ex.guards[0]
		for _, x := range ex.guards[1:] {
			g = ex.TS.And(g, x)
		}
		t = ex.TS.Implies(g, t)
	}
	if t.isConst {
		if !t.bv {
			panic(infeasible{})
		}
		return
	}
	ex.pc = append(ex.pc, t)
	ex.Sol.Assert(t)
}

// decide resolves a symbolic branch by forking.
func (ex *Exec) decide(c *Term) bool {
	if ex.spec > 0 {
		panic(mergeAbort{"fork inside arm"})
	}
	if ex.pos < len(ex.trace) {
		d := ex.trace[ex.pos]
		ex.pos++
		ex.decisions = append(ex.decisions, d)
		if d {
			ex.assume(c)
		} else {
			ex.assume(ex.TS.Not(c))
		}
		return d
	}
	rt, _ := ex.Sol.Check([]*Term{c}, nil)
	rf, _ := ex.Sol.Check([]*Term{ex.TS.Not(c)}, nil)
	if rt == Unknown || rf == Unknown {
		ex.unknownBranches++
	}
	ft, ff := rt != Unsat, rf != Unsat
	if !ft && !ff {
		panic(infeasible{})
	}
	d := ft
	if ft && ff {
		alt := append(append([]bool(nil), ex.decisions...), false)
		ex.newAlts = append(ex.newAlts, alt)
	}
	ex.pos++
	ex.decisions = append(ex.decisions, d)
	if d {
		ex.assume(c)
	} else {
		ex.assume(ex.TS.Not(c))
	}
	return d
}

func (ex *Exec) freshName(prefix string) string {
	ex.fresh++
	return fmt.Sprintf("%s!%d", prefix, ex.fresh)
}

func (ex *Exec) whereShort(g *G) string {
	if len(g.frames) == 0 {
		return "?"
	}
	f := g.frames[len(g.frames)-1]
	if f.block != nil && f.pc < len(f.block.Instrs) {
		p := ex.Prog.Fset.Position(f.block.Instrs[f.pc].Pos())
		if p.IsValid() {
			return fmt.Sprintf("%s:%d", shortFile(p.Filename), p.Line)
		}
	}
	return f.fn.Name()
}

// NewExec prepares a run.
func NewExec(p *Program, sol *Solver, fpMode bool, trace []bool, noMerge map[*ssa.BasicBlock]bool) *Exec {
	sol.Reset()
	if noMerge == nil {
		noMerge = map[*ssa.BasicBlock]bool{}
	}
	ts := NewTermStore()
	if fpMode {
		ts.FPSubLemma = sol.FPSubLemma()
	}
	return &Exec{
		Prog: p, TS: ts, Sol: sol, FPMode: fpMode, trace: trace,
		MaxSteps: 3000000, noMerge: noMerge, noMergeAlt: map[*ssa.BasicBlock]bool{},
		Reach: map[string]bool{}, Info: map[string]string{},
		globals: map[*ssa.Global]*Value{}, nondetSeen: map[string]bool{},
		knownSeen: map[string]bool{}, dynStubs: map[string]*Closure{}, memAcc: map[*Value][]memAcc{}, stubs: map[string]bool{}, funcs: map[*ssa.Function]bool{},
	}
}
