package sym

import (
	"fmt"
	"go/token"
	"math/big"
)

// IEEE special values in real mode (zero-denominator exploration only).
//
// Real mode normally has no NaN / Inf. In the @zeroden cases a bounded number of
// divisions per path may take the branch "denominator == 0"; the quotient is then
// the CONCRETE special value IEEE 754 prescribes, chosen by forking on the sign of
// the numerator (x/0 = +Inf, -Inf or NaN for x > 0, x < 0, x == 0). Specials are
// always concrete (Flt.Sp); every later operation on them follows IEEE 754, forking
// on the sign of a symbolic finite operand where the result depends on it. Signed
// zeros are not modelled (a zero is +0).
const (
	spFin    = 0
	spPosInf = 1
	spNegInf = 2
	spNaN    = 3
)

func special(bits uint8, sp uint8) Flt {
	return Flt{Bits: bits, R: new(big.Rat), Sp: sp}
}

func spName(sp uint8) string {
	switch sp {
	case spPosInf:
		return "+Inf"
	case spNegInf:
		return "-Inf"
	case spNaN:
		return "NaN"
	}
	return "finite"
}

func infOf(bits uint8, sign int) Flt {
	if sign < 0 {
		return special(bits, spNegInf)
	}
	return special(bits, spPosInf)
}

func spSign(sp uint8) int {
	if sp == spNegInf {
		return -1
	}
	return 1
}

// signOf decides the sign of a finite value on this path (forks when symbolic).
func (ex *Exec) signOf(f Flt) int {
	if f.T == nil {
		if ex.FPMode {
			panic(unsupported{"special values in fp mode"})
		}
		return f.R.Sign()
	}
	ts := ex.TS
	zero := ts.RealC(ratZero)
	if ex.decide(ts.RCmp(">", f.T, zero)) {
		return 1
	}
	if ex.decide(ts.RCmp("<", f.T, zero)) {
		return -1
	}
	return 0
}

// ieeeDivZero: x / 0 for a finite numerator.
func (ex *Exec) ieeeDivZero(a Flt) Flt {
	ex.Info["zero_denominator_explored"] = ex.where()
	switch ex.signOf(a) {
	case 1:
		return special(a.Bits, spPosInf)
	case -1:
		return special(a.Bits, spNegInf)
	}
	return special(a.Bits, spNaN)
}

// spBinop: a binary operation with at least one special operand.
func (ex *Exec) spBinop(op token.Token, a, b Flt) Value {
	bits := a.Bits
	nan := special(bits, spNaN)
	anyNaN := a.Sp == spNaN || b.Sp == spNaN
	switch op {
	case token.EQL:
		return Bool{C: !anyNaN && a.Sp == b.Sp && a.Sp != spFin}
	case token.NEQ:
		return Bool{C: anyNaN || a.Sp != b.Sp}
	case token.LSS, token.LEQ, token.GTR, token.GEQ:
		if anyNaN {
			return Bool{C: false}
		}
		// rank: -Inf < finite < +Inf
		rank := func(f Flt) int {
			switch f.Sp {
			case spPosInf:
				return 1
			case spNegInf:
				return -1
			}
			return 0
		}
		ra, rb := rank(a), rank(b)
		switch op {
		case token.LSS:
			return Bool{C: ra < rb}
		case token.LEQ:
			return Bool{C: ra <= rb} // equal ranks here means the same infinity
		case token.GTR:
			return Bool{C: ra > rb}
		default:
			return Bool{C: ra >= rb}
		}
	}
	if anyNaN {
		return nan
	}
	switch op {
	case token.ADD, token.SUB:
		bs := b.Sp
		if op == token.SUB && bs != spFin {
			bs = 3 - bs // flip the infinity
		}
		switch {
		case a.Sp != spFin && bs != spFin:
			if a.Sp != bs {
				return nan // Inf - Inf
			}
			return special(bits, a.Sp)
		case a.Sp != spFin:
			return special(bits, a.Sp)
		default:
			return special(bits, bs)
		}
	case token.MUL:
		sa, sb := 0, 0
		if a.Sp != spFin {
			sa = spSign(a.Sp)
		} else {
			sa = ex.signOf(a)
		}
		if b.Sp != spFin {
			sb = spSign(b.Sp)
		} else {
			sb = ex.signOf(b)
		}
		if sa*sb == 0 {
			return nan // Inf * 0
		}
		return infOf(bits, sa*sb)
	case token.QUO:
		switch {
		case a.Sp != spFin && b.Sp != spFin:
			return nan // Inf / Inf
		case a.Sp != spFin:
			// Inf / finite: the sign of the quotient (a zero counts as +0)
			s := ex.signOf(b)
			if s == 0 {
				s = 1
			}
			return infOf(bits, spSign(a.Sp)*s)
		default:
			// finite / Inf = 0
			return Flt{Bits: bits, R: new(big.Rat)}
		}
	}
	panic(unsupported{fmt.Sprintf("special-value binop %v", op)})
}

func hasSpecial(v Value) bool {
	switch x := v.(type) {
	case Flt:
		return x.Sp != spFin
	case Iface:
		return x.T != nil && hasSpecial(x.V)
	case Struct:
		for _, e := range x {
			if hasSpecial(e) {
				return true
			}
		}
	case Array:
		for _, e := range x {
			if hasSpecial(e) {
				return true
			}
		}
	case Tuple:
		for _, e := range x {
			if hasSpecial(e) {
				return true
			}
		}
	}
	return false
}
