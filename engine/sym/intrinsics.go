package sym

import (
	"fmt"
	"go/token"
	"go/types"
	"math"
	"math/big"
	"path/filepath"
	"strconv"
	"strings"
	"time"

	"golang.org/x/tools/go/ssa"
)

const vrtPkg = "verif/harness/vrt"

// intrinsicName returns the canonical name used to look up intrinsics.
func intrinsicName(fn *ssa.Function) string {
	if o := fn.Origin(); o != nil {
		fn = o
	}
	return fn.String()
}

var intrinsicSet = map[string]bool{
	"math.Abs": true, "math.Max": true, "math.Min": true, "math.Pow": true, "math.Sqrt": true,
	"math.Round": true, "math.Floor": true, "math.Inf": true, "math.IsNaN": true, "math.IsInf": true,
	"math.Trunc": true, "math.Ceil": true,
	"time.Sleep": true, "time.Now": true, "(time.Time).String": true, "(time.Time).Format": true,
	"(time.Time).Equal": true, "(time.Time).After": true, "(time.Time).Before": true, "(time.Time).AddDate": true,
	"(time.Time).IsZero": true, "(time.Time).Sub": true, "(time.Duration).Hours": true, "time.Date": true,
	"path/filepath.Join": true, "path/filepath.Clean": true, "path.Join": true,
	"errors.Is":                 true,
	"(*sync/atomic.Bool).Store": true, "(*sync/atomic.Bool).Load": true,
	"(*sync/atomic.Int32).Add": true, "(*sync/atomic.Int32).Load": true, "(*sync/atomic.Int64).Add": true, "(*sync/atomic.Int64).Load": true,
	"(*sync.WaitGroup).Add": true, "(*sync.WaitGroup).Done": true, "(*sync.WaitGroup).Wait": true,
	"(*sync.Mutex).Lock": true, "(*sync.Mutex).Unlock": true,
	"(*sync.RWMutex).Lock": true, "(*sync.RWMutex).Unlock": true, "(*sync.RWMutex).RLock": true, "(*sync.RWMutex).RUnlock": true,
	"fmt.Sprintf": true, "fmt.Errorf": true, "fmt.Sprint": true, "fmt.Println": true, "fmt.Printf": true,
	"errors.New": true,
	"log.Printf": true, "log.Println": true, "log.Print": true,
	"log/slog.Default": true, "(*log/slog.Logger).Error": true, "(*log/slog.Logger).Info": true, "(*log/slog.Logger).Warn": true, "(*log/slog.Logger).Debug": true,
	"log/slog.Error": true, "log/slog.Info": true, "log/slog.Warn": true,
	"strings.HasSuffix": true, "strings.TrimSuffix": true, "strings.HasPrefix": true, "strings.Join": true, "strings.Contains": true,
	"runtime.Gosched": true,
}

func (ex *Exec) isIntrinsic(fn *ssa.Function) bool {
	n := intrinsicName(fn)
	if intrinsicSet[n] || reflIntrinsics[n] {
		return true
	}
	if fn.Pkg != nil && fn.Pkg.Pkg.Path() == vrtPkg {
		return true
	}
	if o := fn.Origin(); o != nil && o.Pkg != nil && o.Pkg.Pkg.Path() == vrtPkg {
		return true
	}
	if ex.Prog.Stubs != nil {
		if _, ok := ex.Prog.Stubs[n]; ok {
			return true
		}
	}
	if _, ok := ex.dynStubs[n]; ok {
		return true
	}
	return false
}

type errObj struct{ msg string }

func (ex *Exec) mkError(msg string) Value {
	p := new(Value)
	*p = Struct{Str{C: msg}}
	return Iface{T: ex.Prog.ErrType, V: Ptr{P: p}}
}

func (ex *Exec) intrinsic(g *G, f *Frame, fn *ssa.Function, args []Value, call *ssa.Call) (Value, bool) {
	n := intrinsicName(fn)
	if cl, ok := ex.dynStubs[n]; ok {
		// harness-provided stub (vrt.Stub): same arguments, runs as ordinary code
		ex.stubs[n] = true
		nf := ex.newFrame(cl.Fn, args, cl.Env)
		if call != nil {
			nf.retTo = call
		}
		g.frames = append(g.frames, nf)
		return nil, true
	}
	if stub, ok := ex.Prog.Stubs[n]; ok {
		ex.stubs[n] = true
		nf := ex.newFrame(stub, args, nil)
		if call != nil {
			nf.retTo = call
		}
		g.frames = append(g.frames, nf)
		return nil, true // control transferred; frame return advances pc
	}
	if reflIntrinsics[n] {
		return ex.reflIntrinsic(n, fn, args), false
	}
	if v, ok := ex.serialIntrinsic(n, fn, args); ok {
		return v, false
	}
	if v, ok := ex.calendarIntrinsic(n, args); ok {
		return v, false
	}
	if v, ok := ex.stringsIntrinsic(n, args); ok {
		return v, false
	}
	switch n {
	case "math.Abs":
		return ex.fabs(args[0].(Flt)), false
	case "math.Max":
		return ex.fmax(args[0].(Flt), args[1].(Flt), true), false
	case "math.Min":
		return ex.fmax(args[0].(Flt), args[1].(Flt), false), false
	case "math.Pow":
		return ex.fpow(args[0].(Flt), args[1].(Flt)), false
	case "math.Sqrt":
		return ex.fsqrt(args[0].(Flt)), false
	case "math.IsNaN", "math.IsInf":
		// real mode has no NaN / Inf except the unspecified x/0 terms: those may be either
		f := args[0].(Flt)
		if f.Sp != spFin {
			if n == "math.IsNaN" {
				return Bool{C: f.Sp == spNaN}, false
			}
			sign := ex.concInt(args[1], "math.IsInf sign")
			return Bool{C: f.Sp != spNaN && (sign == 0 || (sign > 0) == (f.Sp == spPosInf))}, false
		}
		if f.T != nil && f.T.poison {
			ex.fresh++
			return Bool{T: ex.TS.Var(fmt.Sprintf("isnan!%d", ex.fresh), SBool)}, false
		}
		return Bool{C: false}, false
	case "math.Round":
		return ex.fround(args[0].(Flt), false), false
	case "math.Floor":
		return ex.fround(args[0].(Flt), true), false
	case "time.Sleep", "runtime.Gosched":
		return nil, false
	case "time.Now":
		// day-number model: "now" is a nondeterministic day
		t := ex.zero(fn.Signature.Results().At(0).Type()).(Struct)
		// one symbolic "today" per run (a run does not span midnight)
		if ex.Concrete != nil {
			v, ok := ex.Concrete["now"]
			if !ok {
				v = "0"
			}
			t[1] = mkInt(parseIntText(v, 64), 64, false)
			return t, false
		}
		first := !ex.nondetSeen["now"]
		t[1] = Int{Bits: 64, T: ex.nondetVar("now", SBV64)}
		if first {
			ex.assume(ex.TS.BVCmp("bvsge", t[1].(Int).T, ex.TS.BVC(0, 64)))
			ex.assume(ex.TS.BVCmp("bvsle", t[1].(Int).T, ex.TS.BVC(20000, 64)))
		}
		return t, false
	case "(time.Time).Equal":
		return ex.binop(token.EQL, args[0].(Struct)[1], args[1].(Struct)[1], nil), false
	case "(time.Time).After":
		return ex.binop(token.GTR, args[0].(Struct)[1], args[1].(Struct)[1], nil), false
	case "(time.Time).Before":
		return ex.binop(token.LSS, args[0].(Struct)[1], args[1].(Struct)[1], nil), false
	case "(time.Time).IsZero":
		return ex.binop(token.EQL, args[0].(Struct)[1], mkInt(0, 64, false), nil), false
	case "(time.Time).AddDate":
		if ex.concInt(args[1], "AddDate years") != 0 || ex.concInt(args[2], "AddDate months") != 0 {
			panic(unsupported{"time.AddDate with years/months (day-number model)"})
		}
		t := copyVal(args[0]).(Struct)
		t[1] = ex.binop(token.ADD, t[1], args[3], nil)
		return t, false
	case "(time.Time).Sub":
		// Duration in nanoseconds: days * 86400e9
		d := ex.binop(token.SUB, args[0].(Struct)[1], args[1].(Struct)[1], nil)
		return ex.binop(token.MUL, d, mkInt(86400000000000, 64, false), nil), false
	case "(time.Duration).Hours":
		d := args[0].(Int)
		days := ex.binop(token.QUO, d, mkInt(86400000000000, 64, false), nil)
		f := ex.convert(days, nil, types.Typ[types.Float64]).(Flt)
		return ex.fltBinop(token.MUL, f, ex.fltC(24, 64)), false
	case "time.Date":
		// day-number model: whole days since 2000-01-01 (the epoch of vrt.Day)
		y, mo, d := int(ex.concInt(args[0], "time.Date year")), int(ex.concInt(args[1], "time.Date month")), int(ex.concInt(args[2], "time.Date day"))
		days := int64(time.Date(y, time.Month(mo), d, 0, 0, 0, 0, time.UTC).Sub(time.Date(2000, 1, 1, 0, 0, 0, 0, time.UTC)).Hours() / 24)
		t := ex.zero(fn.Signature.Results().At(0).Type()).(Struct)
		t[1] = mkInt(days, 64, false)
		return t, false
	case "path/filepath.Join", "path.Join":
		var parts []string
		for _, e := range args[0].(Slice).A {
			parts = append(parts, strArg(e))
		}
		return Str{C: filepath.Join(parts...)}, false
	case "path/filepath.Clean":
		return Str{C: filepath.Clean(strArg(args[0]))}, false
	case "(*sync/atomic.Bool).Store", "(*sync/atomic.Bool).Load",
		"(*sync/atomic.Int32).Add", "(*sync/atomic.Int32).Load", "(*sync/atomic.Int64).Add", "(*sync/atomic.Int64).Load":
		// atomic cells: sequentially consistent accesses, never a data race; the value
		// lives in a side table keyed by the cell's address
		if ex.spec > 0 {
			panic(mergeAbort{"atomic op in arm"})
		}
		p := args[0].(Ptr).P
		if ex.atomics == nil {
			ex.atomics = map[*Value]Value{}
		}
		ev := ex.newEvent(g, "atomic", nil, p)
		if last := ex.atomicLast[p]; last != nil {
			ex.addEdge(last, ev)
		}
		if ex.atomicLast == nil {
			ex.atomicLast = map[*Value]*Event{}
		}
		ex.atomicLast[p] = ev
		cur, ok := ex.atomics[p]
		switch {
		case strings.HasSuffix(n, "Bool).Store"):
			ex.atomics[p] = args[1]
			return nil, false
		case strings.HasSuffix(n, "Bool).Load"):
			if !ok {
				return Bool{}, false
			}
			return cur, false
		case strings.HasSuffix(n, ".Add"):
			bits := 64
			if strings.Contains(n, "Int32") {
				bits = 32
			}
			if !ok {
				cur = mkInt(0, bits, false)
			}
			nv := ex.binop(token.ADD, cur, args[1], nil)
			ex.atomics[p] = nv
			return nv, false
		default:
			if !ok {
				if strings.Contains(n, "Int32") {
					return mkInt(0, 32, false), false
				}
				return mkInt(0, 64, false), false
			}
			return cur, false
		}
	case "errors.Is":
		a, b := args[0].(Iface), args[1].(Iface)
		return ex.boolOf(ex.eqTerm(a, b)), false
	case "(time.Time).String":
		return Str{C: "<time>"}, false
	case "fmt.Sprintf":
		return Str{C: ex.sprintf(args)}, false
	case "fmt.Sprint":
		return Str{C: "<sprint>"}, false
	case "fmt.Errorf":
		return ex.mkError(ex.sprintf(args)), false
	case "errors.New":
		return ex.mkError(args[0].(Str).C), false
	case "fmt.Println", "fmt.Printf":
		return Tuple{mkInt(0, 64, false), Iface{}}, false
	case "log.Printf", "log.Println", "log.Print",
		"(*log/slog.Logger).Error", "(*log/slog.Logger).Info", "(*log/slog.Logger).Warn", "(*log/slog.Logger).Debug",
		"log/slog.Error", "log/slog.Info", "log/slog.Warn":
		return nil, false
	case "log/slog.Default":
		return Ptr{P: new(Value)}, false
	case "strings.Join":
		var parts []string
		for _, e := range args[0].(Slice).A {
			parts = append(parts, strArg(e))
		}
		return Str{C: strings.Join(parts, strArg(args[1]))}, false
	case "strings.Contains":
		return Bool{C: strings.Contains(strArg(args[0]), strArg(args[1]))}, false
	case "strings.HasSuffix":
		return Bool{C: strings.HasSuffix(args[0].(Str).C, args[1].(Str).C)}, false
	case "strings.HasPrefix":
		return Bool{C: strings.HasPrefix(args[0].(Str).C, args[1].(Str).C)}, false
	case "strings.TrimSuffix":
		return Str{C: strings.TrimSuffix(args[0].(Str).C, args[1].(Str).C)}, false
	case "(*sync.WaitGroup).Add", "(*sync.WaitGroup).Done", "(*sync.WaitGroup).Wait",
		"(*sync.Mutex).Lock", "(*sync.Mutex).Unlock",
		"(*sync.RWMutex).Lock", "(*sync.RWMutex).Unlock", "(*sync.RWMutex).RLock", "(*sync.RWMutex).RUnlock":
		return ex.syncOp(g, n, args)
	}
	if strings.HasPrefix(n, vrtPkg+".") {
		return ex.vrt(g, f, strings.TrimPrefix(n, vrtPkg+"."), fn, args)
	}
	panic(unsupported{"intrinsic " + n})
}

func (ex *Exec) sprintf(args []Value) string {
	if len(args) == 0 {
		return ""
	}
	f, ok := args[0].(Str)
	if !ok || f.T != nil {
		return "<fmt>"
	}
	var rest []Value
	if len(args) > 1 {
		if sl, ok := args[1].(Slice); ok {
			rest = sl.A
		} else {
			rest = args[1:]
		}
	}
	render := func(v Value, verb byte) string {
		if i, ok := v.(Iface); ok {
			if i.T == nil {
				return "<nil>"
			}
			v = i.V
		}
		switch x := v.(type) {
		case Str:
			if x.T != nil {
				return "<sym>"
			}
			if verb == 'q' {
				return strconv.Quote(x.C)
			}
			return x.C
		case Int:
			if x.T != nil {
				return "<sym>"
			}
			return strconv.FormatInt(x.C, 10)
		case Bool:
			if x.T != nil {
				return "<sym>"
			}
			return fmt.Sprint(x.C)
		case Flt:
			if x.Sp != spFin {
				return spName(x.Sp)
			}
			if x.T != nil {
				return "<sym>"
			}
			fl := x.F
			if !ex.FPMode {
				fl, _ = x.R.Float64()
			}
			if verb == 'f' {
				return strconv.FormatFloat(fl, 'f', -1, 64)
			}
			return strconv.FormatFloat(fl, 'g', -1, 64)
		case Ptr:
			// error values built by mkError: *errorString{s}
			if x.P != nil {
				if st, ok := (*x.P).(Struct); ok && len(st) == 1 {
					if s, ok := st[0].(Str); ok {
						return s.C
					}
				}
			}
			return "<ptr>"
		}
		return "<val>"
	}
	var sb strings.Builder
	fs := f.C
	ai := 0
	for i := 0; i < len(fs); i++ {
		if fs[i] != '%' || i+1 >= len(fs) {
			sb.WriteByte(fs[i])
			continue
		}
		j := i + 1
		for j < len(fs) && strings.IndexByte("+-# 0123456789.", fs[j]) >= 0 {
			j++
		}
		if j >= len(fs) {
			break
		}
		if fs[j] == '%' {
			sb.WriteByte('%')
		} else if ai < len(rest) {
			sb.WriteString(render(rest[ai], fs[j]))
			ai++
		} else {
			sb.WriteString("%!" + string(fs[j]) + "(MISSING)")
		}
		i = j
	}
	return sb.String()
}

// ---- sync ----

type syncState struct {
	count    int
	waiters  []*G
	locked   bool
	lockq    []*G
	doneEvs  []*Event
	unlockEv *Event
	// RWMutex: readers holding the lock, goroutines waiting for a read lock, and the
	// read-unlock events since the last write lock (a writer is ordered after them;
	// readers are not ordered among themselves)
	readers    int
	rlockq     []*G
	runlockEvs []*Event
}

func (ex *Exec) syncOf(p *Value) *syncState {
	if ex.syncTab == nil {
		ex.syncTab = map[*Value]*syncState{}
	}
	s := ex.syncTab[p]
	if s == nil {
		s = &syncState{}
		ex.syncTab[p] = s
	}
	return s
}

func (ex *Exec) syncOp(g *G, n string, args []Value) (Value, bool) {
	if ex.spec > 0 {
		panic(mergeAbort{"sync op in arm"})
	}
	p := args[0].(Ptr).P
	s := ex.syncOf(p)
	switch {
	case strings.HasSuffix(n, "WaitGroup).Add"), strings.HasSuffix(n, "WaitGroup).Done"):
		d := -1
		if strings.HasSuffix(n, "Add") {
			d = int(ex.concInt(args[1], "WaitGroup.Add"))
		}
		ev := ex.newEvent(g, "wg", nil, p)
		s.count += d
		if d < 0 {
			s.doneEvs = append(s.doneEvs, ev)
		}
		if s.count < 0 {
			panic(goPanic{"sync: negative WaitGroup counter"})
		}
		if s.count == 0 {
			for _, w := range s.waiters {
				wev := ex.newEvent(w, "wgwait", nil, p)
				for _, de := range s.doneEvs {
					ex.addEdge(de, wev)
				}
				ex.top(w).pc++
				ex.wake(w)
			}
			s.waiters = nil
		}
		return nil, false
	case strings.HasSuffix(n, "WaitGroup).Wait"):
		if s.count == 0 {
			wev := ex.newEvent(g, "wgwait", nil, p)
			for _, de := range s.doneEvs {
				ex.addEdge(de, wev)
			}
			return nil, false
		}
		s.waiters = append(s.waiters, g)
		g.status = gBlocked
		g.waitWhat = "WaitGroup.Wait"
		return nil, true
	case strings.HasSuffix(n, ").RLock"):
		if s.locked || len(s.lockq) > 0 {
			// a writer holds the lock or waits for it (writers are not starved)
			s.rlockq = append(s.rlockq, g)
			g.status = gBlocked
			g.waitWhat = "RWMutex.RLock"
			return nil, true
		}
		s.readers++
		ev := ex.newEvent(g, "rlock", nil, p)
		ex.addEdge(s.unlockEv, ev)
		ex.lockOrder = append(ex.lockOrder, ev)
		return nil, false
	case strings.HasSuffix(n, ").RUnlock"):
		if s.readers == 0 {
			panic(goPanic{"sync: RUnlock of unlocked RWMutex"})
		}
		s.readers--
		ev := ex.newEvent(g, "runlock", nil, p)
		s.runlockEvs = append(s.runlockEvs, ev)
		if s.readers == 0 && len(s.lockq) > 0 {
			ex.grantWriter(s, p)
		}
		return nil, false
	case strings.HasSuffix(n, "Lock") && !strings.HasSuffix(n, "Unlock"):
		if !s.locked && s.readers == 0 {
			s.locked = true
			ev := ex.newEvent(g, "lock", nil, p)
			ex.addEdge(s.unlockEv, ev)
			for _, r := range s.runlockEvs {
				ex.addEdge(r, ev)
			}
			s.runlockEvs = nil
			ex.lockOrder = append(ex.lockOrder, ev)
			return nil, false
		}
		s.lockq = append(s.lockq, g)
		g.status = gBlocked
		g.waitWhat = "Mutex.Lock"
		return nil, true
	default: // Unlock
		if !s.locked {
			panic(goPanic{"sync: unlock of unlocked mutex"})
		}
		ev := ex.newEvent(g, "unlock", nil, p)
		s.unlockEv = ev
		s.locked = false
		if len(s.rlockq) > 0 {
			// waiting readers go first after a writer (as sync.RWMutex does)
			for _, w := range s.rlockq {
				s.readers++
				rev := ex.newEvent(w, "rlock", nil, p)
				ex.addEdge(ev, rev)
				ex.lockOrder = append(ex.lockOrder, rev)
				ex.top(w).pc++
				ex.wake(w)
			}
			s.rlockq = nil
		} else if len(s.lockq) > 0 {
			ex.grantWriter(s, p)
		}
		return nil, false
	}
}

// grantWriter hands the (free) lock to the first waiting writer.
func (ex *Exec) grantWriter(s *syncState, p *Value) {
	w := s.lockq[0]
	s.lockq = s.lockq[1:]
	s.locked = true
	lev := ex.newEvent(w, "lock", nil, p)
	ex.addEdge(s.unlockEv, lev)
	for _, r := range s.runlockEvs {
		ex.addEdge(r, lev)
	}
	s.runlockEvs = nil
	ex.lockOrder = append(ex.lockOrder, lev)
	ex.top(w).pc++
	ex.wake(w)
}

// ---- vrt: the harness runtime ----

func (ex *Exec) nondetVar(name string, s Sort) *Term {
	t := ex.TS.Var(name, s)
	if !ex.nondetSeen[name] {
		ex.nondetSeen[name] = true
		ex.nondet = append(ex.nondet, t)
	}
	return t
}

func strArg(v Value) string {
	s, ok := v.(Str)
	if !ok || s.T != nil {
		panic(unsupported{"vrt: name/label must be a concrete string"})
	}
	return s.C
}

func (ex *Exec) nameOf(args []Value) string {
	name := strArg(args[0])
	if len(args) > 1 {
		if sl, ok := args[1].(Slice); ok {
			for _, e := range sl.A {
				name += fmt.Sprintf("_%d", ex.concInt(e, "vrt name index"))
			}
		}
	}
	return name
}

func (ex *Exec) concVal(name string) (string, bool) {
	if ex.Concrete == nil {
		return "", false
	}
	v, ok := ex.Concrete[name]
	if !ok {
		return "1", true // same default as the native runtime for floats; ints use 0
	}
	return v, true
}

func parseRatText(v string) *big.Rat {
	if strings.HasPrefix(v, "fp:") {
		parts := strings.Split(v, ":")
		bits, _ := strconv.ParseUint(parts[1], 16, 64)
		f := math.Float64frombits(bits)
		if parts[2] == "32" {
			f = float64(math.Float32frombits(uint32(bits)))
		}
		r := new(big.Rat)
		r.SetFloat64(f)
		return r
	}
	if r, ok := new(big.Rat).SetString(v); ok {
		return r
	}
	return big.NewRat(1, 1)
}

func parseIntText(v string, bits int) int64 {
	if strings.HasPrefix(v, "bv:") {
		parts := strings.Split(v, ":")
		u, _ := strconv.ParseUint(parts[1], 10, 64)
		return wrapInt(int64(u), bits, false)
	}
	i, _ := strconv.ParseInt(v, 10, 64)
	return i
}

func (ex *Exec) symFloat(name string, bits int) Flt {
	if v, ok := ex.concVal(name); ok {
		r := parseRatText(v)
		if ex.FPMode {
			f, _ := r.Float64()
			return ex.fltC(f, bits)
		}
		// the native run sees the float64 nearest to the model value
		f, _ := r.Float64()
		return ex.fltC(f, bits)
	}
	if ex.FPMode {
		s := SFP64
		if bits == 32 {
			s = SFP32
		}
		fresh := !ex.nondetSeen[name]
		t := ex.nondetVar(name, s)
		if fresh {
			ex.TS.Finite[t] = true
			ex.assume(ex.TS.Not(ex.TS.Op(SBool, "fp.isNaN", t)))
			ex.assume(ex.TS.Not(ex.TS.Op(SBool, "fp.isInfinite", t)))
		}
		return Flt{Bits: uint8(bits), T: t}
	}
	return Flt{Bits: uint8(bits), T: ex.nondetVar(name, SReal)}
}

func (ex *Exec) vrt(g *G, f *Frame, name string, fn *ssa.Function, args []Value) (Value, bool) {
	_ = ex.TS
	switch name {
	case "Float64":
		return ex.symFloat(ex.nameOf(args), 64), false
	case "Float32":
		return ex.symFloat(ex.nameOf(args), 32), false
	case "Floats":
		n := int(ex.concInt(args[1], "Floats n"))
		a := make([]Value, n)
		for i := range a {
			a[i] = ex.symFloat(fmt.Sprintf("%s_%d", strArg(args[0]), i), 64)
		}
		return Slice{A: a}, false
	case "Int", "Int8", "Int16", "Int32", "Int64":
		bits := map[string]int{"Int": 64, "Int8": 8, "Int16": 16, "Int32": 32, "Int64": 64}[name]
		if ex.Concrete != nil {
			v, ok := ex.Concrete[ex.nameOf(args)]
			if !ok {
				v = "0"
			}
			return mkInt(parseIntText(v, bits), bits, false), false
		}
		return Int{Bits: uint8(bits), T: ex.nondetVar(ex.nameOf(args), bvSort(bits))}, false
	case "Num":
		// generic: Num[T](name, idx...) T
		rt := fn.Signature.Results().At(0).Type()
		nm := ex.nameOf(args)
		if bits, uns, ok := intInfo(rt); ok {
			if ex.Concrete != nil {
				v, ok := ex.Concrete[nm]
				if !ok {
					v = "0"
				}
				return mkInt(parseIntText(v, bits), bits, uns), false
			}
			return Int{Bits: uint8(bits), Uns: uns, T: ex.nondetVar(nm, bvSort(bits))}, false
		}
		if bits, ok := floatBits(rt); ok {
			return ex.symFloat(nm, bits), false
		}
		panic(unsupported{"vrt.Num of " + rt.String()})
	case "Choice":
		// a nondeterministic outcome in [0, n): a symbolic integer that is case-split
		// at once (one path per value, feasibility decided by the solver)
		n := int(ex.concInt(args[1], "vrt.Choice n"))
		nm := strArg(args[0])
		if len(args) > 2 {
			if sl, ok := args[2].(Slice); ok {
				for _, e := range sl.A {
					nm += fmt.Sprintf("_%d", ex.concInt(e, "vrt name index"))
				}
			}
		}
		if ex.Concrete != nil {
			v, ok := ex.Concrete[nm]
			if !ok {
				v = "0"
			}
			return mkInt(parseIntText(v, 64), 64, false), false
		}
		iv := Int{Bits: 64, T: ex.nondetVar(nm, SBV64)}
		ts := ex.TS
		ex.assume(ts.And(ts.BVCmp("bvsge", iv.T, ts.BVC(0, 64)), ts.BVCmp("bvslt", iv.T, ts.BVC(int64(n), 64))))
		for k := 0; k < n-1; k++ {
			if ex.decide(ts.Eq(iv.T, ts.BVC(int64(k), 64))) {
				return mkInt(int64(k), 64, false), false
			}
		}
		return mkInt(int64(n-1), 64, false), false
	case "Bool":
		if ex.Concrete != nil {
			return Bool{C: ex.Concrete[ex.nameOf(args)] == "true"}, false
		}
		return Bool{T: ex.nondetVar(ex.nameOf(args), SBool)}, false
	case "Name":
		return Str{C: ex.nameOf(args)}, false
	case "Assume":
		b := args[0].(Bool)
		if ex.spec > 0 {
			panic(mergeAbort{"assume in arm"})
		}
		ex.nAssume++
		if b.T == nil {
			if !b.C {
				panic(infeasible{})
			}
			return nil, false
		}
		ex.assume(b.T)
		if r, _ := ex.Sol.Check(nil, nil); r == Unsat {
			panic(infeasible{})
		}
		return nil, false
	case "Assert", "AssertAt", "KnownFinding", "KnownFindingAt":
		if ex.spec > 0 {
			panic(mergeAbort{"assert in arm"})
		}
		known := ""
		if strings.HasPrefix(name, "Known") {
			known = strArg(args[0])
			args = args[1:]
		}
		label := strArg(args[0])
		var b Bool
		if strings.HasSuffix(name, "At") {
			label = fmt.Sprintf("%s[%d]", label, ex.concInt(args[1], "label index"))
			b = args[2].(Bool)
		} else {
			b = args[1].(Bool)
		}
		if ex.Concrete != nil && b.T == nil {
			ex.Obs = append(ex.Obs, Observation{label, fmt.Sprint(b.C)})
		}
		ex.assertTerm(label, ex.boolTerm(b), known)
		return nil, false
	case "AssertEq", "AssertEqAt", "KnownFindingEq", "KnownFindingEqAt":
		if ex.spec > 0 {
			panic(mergeAbort{"assert in arm"})
		}
		known := ""
		if strings.HasPrefix(name, "Known") {
			known = strArg(args[0])
			args = args[1:]
		}
		label := strArg(args[0])
		var a, b Value
		if strings.HasSuffix(name, "At") {
			label = fmt.Sprintf("%s[%d]", label, ex.concInt(args[1], "label index"))
			a, b = args[2], args[3]
		} else {
			a, b = args[1], args[2]
		}
		if ia, ok := a.(Iface); ok {
			a = ia.V
		}
		if ib, ok := b.(Iface); ok {
			b = ib.V
		}
		if ex.Concrete != nil {
			ex.Obs = append(ex.Obs, Observation{label, ex.obsText(a)})
		}
		if hasSpecial(a) || hasSpecial(b) {
			// a value at a position whose defining denominator is zero: exempt
			ex.Info["assertion_over_zero_denominator"] = label
			ex.Asserts = append(ex.Asserts, AssertRec{Label: label, Known: known, Result: "exempt"})
			return nil, false
		}
		ex.assertTerm(label, ex.eqTerm(a, b), known)
		return nil, false
	case "PossibleIfAt":
		// obligation "cond is satisfiable" that applies only when the premise is satisfiable
		if ex.spec > 0 {
			panic(mergeAbort{"possible in arm"})
		}
		label := fmt.Sprintf("%s[%d]", strArg(args[0]), ex.concInt(args[1], "label index"))
		prem, cond := args[2].(Bool), args[3].(Bool)
		rec := AssertRec{Label: label, Kind: "never"}
		premSat := prem.T == nil && prem.C
		if prem.T != nil {
			r, _ := ex.Sol.Check([]*Term{prem.T}, nil)
			premSat = r != Unsat
			if r == Unknown {
				rec.Result = "unknown"
			}
		}
		switch {
		case rec.Result == "unknown":
		case !premSat:
			rec.Result = "trivial"
		case cond.T == nil:
			if cond.C {
				rec.Result = "trivial"
			} else {
				rec.Result = "violated"
			}
		default:
			switch r, _ := ex.Sol.Check([]*Term{cond.T}, nil); r {
			case Sat:
				rec.Result = "holds"
			case Unsat:
				rec.Result = "violated"
			default:
				rec.Result = "unknown"
			}
		}
		ex.Asserts = append(ex.Asserts, rec)
		return nil, false
	case "Possible", "PossibleAt":
		if ex.spec > 0 {
			panic(mergeAbort{"possible in arm"})
		}
		label := strArg(args[0])
		var b Bool
		if name == "PossibleAt" {
			label = fmt.Sprintf("%s[%d]", label, ex.concInt(args[1], "label index"))
			b = args[2].(Bool)
		} else {
			b = args[1].(Bool)
		}
		rec := AssertRec{Label: label, Kind: "never"}
		if b.T == nil {
			if b.C {
				rec.Result = "trivial"
			} else {
				rec.Result = "violated"
			}
		} else {
			switch r, _ := ex.Sol.Check([]*Term{b.T}, nil); r {
			case Sat:
				rec.Result = "holds"
			case Unsat:
				rec.Result = "violated"
			default:
				rec.Result = "unknown"
			}
		}
		ex.Asserts = append(ex.Asserts, rec)
		return nil, false
	case "Reach":
		label := strArg(args[0])
		if ex.SkipReach {
			ex.Reach[label] = true
			return nil, false
		}
		if _, seen := ex.Reach[label]; !seen || !ex.Reach[label] {
			r, _ := ex.Sol.Check(nil, nil)
			ex.Reach[label] = r == Sat
			if r == Unknown {
				ex.Info["reach_unknown"] = label
			}
		}
		return nil, false
	case "Note":
		ex.Info[strArg(args[0])] = ex.describe(args[1])
		return nil, false
	case "Symbolic":
		return Bool{C: true}, false
	case "Ite":
		c := args[0].(Bool)
		if c.T == nil {
			if c.C {
				return args[1], false
			}
			return args[2], false
		}
		v, ok := ex.mergeVal(c.T, args[1], args[2])
		if !ok {
			panic(unsupported{"vrt.Ite on unmergeable values"})
		}
		return v, false
	case "SetField":
		obj := args[0].(Iface).V.(Ptr)
		fld := strArg(args[1])
		v := args[2].(Iface)
		st := derefType(args[0].(Iface).T).Underlying().(*types.Struct)
		for i := 0; i < st.NumFields(); i++ {
			if st.Field(i).Name() == fld {
				var nv Value
				if v.T == nil {
					nv = ex.zero(st.Field(i).Type())
				} else {
					nv = copyVal(v.V)
				}
				ex.write(&(*obj.P).(Struct)[i], nv)
				return nil, false
			}
		}
		panic(unsupported{"vrt.SetField: no field " + fld})
	case "Len":
		v := args[0].(Iface)
		if sl, ok := v.V.(Slice); ok {
			return mkInt(int64(len(sl.A)), 64, false), false
		}
		panic(unsupported{"vrt.Len of a non-slice"})
	case "Index":
		v := args[0].(Iface)
		sl, ok := v.V.(Slice)
		i := int(ex.concInt(args[1], "vrt.Index"))
		if !ok || i < 0 || i >= len(sl.A) {
			panic(goPanic{"vrt.Index out of range"})
		}
		et := v.T.Underlying().(*types.Slice).Elem()
		return Iface{T: et, V: copyVal(sl.A[i])}, false
	case "NumFields":
		st := derefType(args[0].(Iface).T).Underlying().(*types.Struct)
		return mkInt(int64(st.NumFields()), 64, false), false
	case "GetField":
		obj := args[0].(Iface).V.(Ptr)
		fld := strArg(args[1])
		st := derefType(args[0].(Iface).T).Underlying().(*types.Struct)
		for i := 0; i < st.NumFields(); i++ {
			if st.Field(i).Name() == fld {
				return Iface{T: st.Field(i).Type(), V: copyVal((*obj.P).(Struct)[i])}, false
			}
		}
		panic(unsupported{"vrt.GetField: no field " + fld})
	case "Freeze":
		// C09: tag every slot reachable from the instance
		if ex.frozen == nil {
			ex.frozen = map[*Value]bool{}
		}
		ex.freeze(args[0], 0)
		return nil, false
	case "Unfreeze":
		ex.frozen = nil
		return nil, false
	case "TrackMemory":
		ex.trackMem = args[0].(Bool).C
		return nil, false
	case "Goroutines":
		n := 0
		for _, x := range ex.gs {
			if x.status != gDone {
				n++
			}
		}
		return mkInt(int64(n-1), 64, false), false // excluding the caller
	case "Settle":
		// let every other goroutine run until it blocks or ends
		for _, o := range ex.gs {
			if o != g && o.status == gRunnable {
				ex.cur = o
				return nil, true // re-executed when g is scheduled again
			}
		}
		return nil, false
	case "Stub":
		cl, ok := args[1].(Iface).V.(*Closure)
		if !ok || cl == nil || cl.Fn == nil {
			panic(unsupported{"vrt.Stub: not a function"})
		}
		ex.dynStubs[strArg(args[0])] = cl
		return nil, false
	case "Day":
		t := ex.zero(fn.Signature.Results().At(0).Type()).(Struct)
		t[1] = args[0]
		return t, false
	case "DayOf":
		return args[0].(Struct)[1], false
	case "TempDir":
		return Str{C: "/vrt-tmp"}, false
	case "KnownOutcome":
		ex.knownOutcome = strArg(args[0])
		return nil, false
	case "KnownRace":
		ex.knownRace = strArg(args[0])
		return nil, false
	case "KnownWrite":
		ex.knownFrozen = strArg(args[0])
		return nil, false
	case "Rat":
		num := ex.concInt(args[0], "Rat num")
		den := ex.concInt(args[1], "Rat den")
		return ex.fltR(big.NewRat(num, den), 64), false
	}
	panic(unsupported{"vrt." + name})
}

// obsText renders a concrete scalar for comparison with the native run.
func (ex *Exec) obsText(v Value) string {
	switch x := v.(type) {
	case Flt:
		if x.Sp != spFin {
			return spName(x.Sp)
		}
		if x.T != nil {
			return "?"
		}
		if ex.FPMode {
			return strconv.FormatFloat(x.F, 'g', 17, 64)
		}
		f, _ := x.R.Float64()
		return strconv.FormatFloat(f, 'g', 17, 64)
	case Int:
		if x.T != nil {
			return "?"
		}
		return strconv.FormatInt(x.C, 10)
	case Bool:
		return fmt.Sprint(x.C)
	case Str:
		return x.C
	}
	return "?"
}

func (ex *Exec) freeze(v Value, depth int) {
	if depth > 8 {
		return
	}
	switch x := v.(type) {
	case Iface:
		if x.T != nil {
			ex.freeze(x.V, depth+1)
		}
	case Ptr:
		if x.P != nil && !ex.frozen[x.P] {
			ex.frozen[x.P] = true
			ex.freezeSlots(*x.P, depth+1)
		}
	case Slice:
		full := x.A[:cap(x.A)]
		for i := range full {
			ex.frozen[&full[i]] = true
			ex.freezeSlots(full[i], depth+1)
		}
	case Struct, Array:
		ex.freezeSlots(x, depth)
	}
}

func (ex *Exec) freezeSlots(v Value, depth int) {
	switch x := v.(type) {
	case Struct:
		for i := range x {
			ex.frozen[&x[i]] = true
			ex.freeze(x[i], depth+1)
			ex.freezeSlots(x[i], depth+1)
		}
	case Array:
		for i := range x {
			ex.frozen[&x[i]] = true
			ex.freeze(x[i], depth+1)
			ex.freezeSlots(x[i], depth+1)
		}
	default:
		ex.freeze(v, depth+1)
	}
}

// assertTerm discharges one assertion on the current path.
func (ex *Exec) assertTerm(label string, a *Term, known string) {
	rec := AssertRec{Label: label, Known: known}
	if a.poison {
		// the asserted relation involves x/0 with a constant zero denominator: the
		// properties exempt positions whose defining denominator is zero
		rec.Result = "exempt"
		ex.Info["assertion_over_zero_denominator"] = label
		ex.Asserts = append(ex.Asserts, rec)
		return
	}
	if known != "" && ex.knownSeen[known] {
		// the recorded finding already has its witness on this path: further
		// positions routed to the same id are exempt and not re-solved
		rec.Result = "exempt"
		ex.Asserts = append(ex.Asserts, rec)
		return
	}
	defer func() {
		if known != "" && rec.Result == "violated" {
			ex.knownSeen[known] = true
		}
	}()
	if a.isConst {
		if a.bv {
			rec.Result = "trivial"
			ex.Asserts = append(ex.Asserts, rec)
			return
		}
		// concretely false under the current path condition: any model of PC
		r, m := ex.Sol.Check(ex.rangeTerms(), ex.nondet)
		if r != Sat {
			r, m = ex.Sol.Check(nil, ex.nondet)
		}
		switch r {
		case Sat:
			rec.Result, rec.Model = "violated", m
		case Unsat:
			rec.Result = "vacuous"
		default:
			rec.Result = "unknown"
		}
		ex.Asserts = append(ex.Asserts, rec)
		return
	}
	na := ex.TS.Not(a)
	r, m0 := ex.Sol.Check([]*Term{na}, ex.nondet)
	switch r {
	case Unsat:
		rec.Result = "holds"
	case Unknown:
		rec.Result = "unknown"
	case Sat:
		rec.Result = "violated"
		rec.Model = m0
		// prefer a model inside the replay ranges and with a margin (optional refinement,
		// short time-out: the verdict does not depend on it)
		extra := append([]*Term{ex.marginTerm(a)}, ex.rangeTerms()...)
		if r2, m := ex.Sol.CheckQuick(extra, ex.nondet, 4000); r2 == Sat {
			rec.Model = m
		} else if r2, m := ex.Sol.CheckQuick(append([]*Term{na}, ex.rangeTerms()...), ex.nondet, 4000); r2 == Sat {
			rec.Model = m
		}
		// continue the path under the assertion (if still feasible)
		if rr, _ := ex.Sol.CheckQuick([]*Term{a}, nil, 4000); rr == Sat {
			ex.assume(a)
		}
	}
	ex.Asserts = append(ex.Asserts, rec)
}

// marginTerm strengthens ¬a for equalities/inequalities over reals so that the
// model survives floating-point replay.
func (ex *Exec) marginTerm(a *Term) *Term {
	ts := ex.TS
	if a.op == "=" && a.args[0].sort == SReal {
		d := ts.RSub(a.args[0], a.args[1])
		eps := ts.RealC(big.NewRat(1, 1000))
		absd := ts.Ite(ts.RCmp(">=", d, ts.RealC(ratZero)), d, ts.RNeg(d))
		return ts.RCmp(">", absd, eps)
	}
	return ts.Not(a)
}

// rangeTerms bounds every nondeterministic real/fp input for replayable models.
func (ex *Exec) rangeTerms() []*Term {
	ts := ex.TS
	var out []*Term
	lo, hi := ts.RealC(big.NewRat(-4096, 1)), ts.RealC(big.NewRat(4096, 1))
	for _, v := range ex.nondet {
		if v.sort == SReal {
			out = append(out, ts.RCmp("<=", lo, v), ts.RCmp("<=", v, hi))
			// dyadic with 4 fractional bits: exact in float64, friendly to replay
			k := ts.Var("k!"+v.name, SInt)
			out = append(out, ts.Eq(ts.RMul(ts.RealC(big.NewRat(16, 1)), v), ts.ToReal(k)))
		}
	}
	return out
}

var _ = token.ADD
