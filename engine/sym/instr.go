package sym

import (
	"fmt"
	"go/constant"
	"go/token"
	"go/types"
	"math/big"

	"golang.org/x/tools/go/ssa"
)

func (ex *Exec) constVal(c *ssa.Const) Value {
	t := c.Type()
	if c.Value == nil {
		return ex.zero(t)
	}
	if bits, uns, ok := intInfo(t); ok {
		v, exact := constant.Int64Val(constant.ToInt(c.Value))
		if !exact {
			u, _ := constant.Uint64Val(constant.ToInt(c.Value))
			v = int64(u)
		}
		return mkInt(v, bits, uns)
	}
	if bits, ok := floatBits(t); ok {
		if ex.FPMode {
			f, _ := constant.Float64Val(c.Value)
			return ex.fltC(f, bits)
		}
		cv := constant.ToFloat(c.Value)
		num, den := constant.Num(cv), constant.Denom(cv)
		if num.Kind() == constant.Int && den.Kind() == constant.Int {
			n, _ := new(big.Int).SetString(num.ExactString(), 10)
			d, _ := new(big.Int).SetString(den.ExactString(), 10)
			if n != nil && d != nil && d.Sign() != 0 {
				return Flt{Bits: uint8(bits), R: new(big.Rat).SetFrac(n, d)}
			}
		}
		f, _ := constant.Float64Val(c.Value)
		return ex.fltC(f, bits)
	}
	if b, ok := t.Underlying().(*types.Basic); ok {
		switch {
		case b.Info()&types.IsBoolean != 0:
			return Bool{C: constant.BoolVal(c.Value)}
		case b.Info()&types.IsString != 0:
			return Str{C: constant.StringVal(c.Value)}
		}
	}
	panic(unsupported{fmt.Sprintf("constant %v of type %v", c, t)})
}

func derefType(t types.Type) types.Type {
	if p, ok := t.Underlying().(*types.Pointer); ok {
		return p.Elem()
	}
	return t
}

// concInt demands a concrete integer.
func (ex *Exec) concInt(v Value, what string) int64 {
	i, ok := v.(Int)
	if !ok {
		panic(unsupported{fmt.Sprintf("%s: not an int (%T)", what, v)})
	}
	if i.T != nil {
		panic(unsupported{what + ": symbolic integer where a concrete one is required at " + ex.where()})
	}
	return i.C
}

func (ex *Exec) exec(g *G, f *Frame, in ssa.Instruction) {
	switch x := in.(type) {
	case *ssa.Phi:
		ex.doPhis(f)
		return
	case *ssa.Jump:
		ex.jump(f, f.block.Succs[0])
		return
	case *ssa.If:
		c := ex.reg(f, x.Cond).(Bool)
		if c.T == nil {
			if c.C {
				ex.jump(f, f.block.Succs[0])
			} else {
				ex.jump(f, f.block.Succs[1])
			}
			return
		}
		if ex.tryMerge(g, f, c.T) {
			return
		}
		if ex.decide(c.T) {
			ex.jump(f, f.block.Succs[0])
		} else {
			ex.jump(f, f.block.Succs[1])
		}
		return
	case *ssa.Return:
		var res Value
		switch len(x.Results) {
		case 0:
		case 1:
			res = ex.reg(f, x.Results[0])
		default:
			t := make(Tuple, len(x.Results))
			for i, r := range x.Results {
				t[i] = ex.reg(f, r)
			}
			res = t
		}
		ex.ret(g, res)
		return
	case *ssa.RunDefers:
		if n := len(f.defers); n > 0 {
			if ex.spec > 0 {
				panic(mergeAbort{"rundefers in arm"})
			}
			d := f.defers[n-1]
			f.defers = f.defers[:n-1]
			ex.invoke(g, f, nil, d.fn, d.args, true)
			return
		}
	case *ssa.Defer:
		if ex.spec > 0 {
			panic(mergeAbort{"defer in arm"})
		}
		fn, args := ex.prepareCall(f, &x.Call)
		f.defers = append(f.defers, &deferred{fn: fn, args: args, instr: x})
	case *ssa.Go:
		if ex.spec > 0 {
			panic(mergeAbort{"go in arm"})
		}
		fn, args := ex.prepareCall(f, &x.Call)
		p := ex.Prog.Fset.Position(x.Pos())
		ng := ex.spawn(fn, args, fmt.Sprintf("%s:%d", shortFile(p.Filename), p.Line))
		gev := ex.newEvent(g, "go", nil, nil)
		ng.startEv = ex.newEvent(ng, "start", nil, nil)
		ex.addEdge(gev, ng.startEv)
	case *ssa.Call:
		fn, args := ex.prepareCall(f, &x.Call)
		ex.invoke(g, f, x, fn, args, false)
		return
	case *ssa.Alloc:
		p := new(Value)
		*p = ex.zero(derefType(x.Type()))
		if ex.spec > 0 {
			ex.markFresh(p)
		}
		ex.setReg(f, x, Ptr{P: p})
	case *ssa.Store:
		p := ex.reg(f, x.Addr).(Ptr)
		if p.P == nil {
			panic(goPanic{"nil pointer dereference (store)"})
		}
		ex.memEvent(g, p.P, true)
		ex.write(p.P, copyVal(ex.reg(f, x.Val)))
	case *ssa.UnOp:
		if x.Op == token.ARROW {
			ex.recv(g, f, x)
			return
		}
		ex.setReg(f, x, ex.unop(g, x, ex.reg(f, x.X)))
	case *ssa.BinOp:
		ex.setReg(f, x, ex.binop(x.Op, ex.reg(f, x.X), ex.reg(f, x.Y), x.X.Type()))
	case *ssa.Send:
		ex.send(g, f, x)
		return
	case *ssa.Select:
		ex.selectOp(g, f, x)
		return
	case *ssa.MakeChan:
		n := int(ex.concInt(ex.reg(f, x.Size), "make(chan) size"))
		ex.nextCh++
		ex.setReg(f, x, &ChanObj{id: ex.nextCh, cap: n, elem: x.Type().Underlying().(*types.Chan).Elem()})
	case *ssa.MakeClosure:
		fn := x.Fn.(*ssa.Function)
		env := make([]Value, len(x.Bindings))
		for i, b := range x.Bindings {
			env[i] = ex.reg(f, b)
		}
		ex.setReg(f, x, &Closure{Fn: fn, Env: env})
	case *ssa.MakeSlice:
		l := int(ex.concInt(ex.reg(f, x.Len), "make([]T) len"))
		c := int(ex.concInt(ex.reg(f, x.Cap), "make([]T) cap"))
		if l < 0 || c < l {
			panic(goPanic{"makeslice: len out of range"})
		}
		et := x.Type().Underlying().(*types.Slice).Elem()
		a := make([]Value, l, c)
		full := a[:c]
		for i := range full {
			full[i] = ex.zero(et)
			if ex.spec > 0 {
				ex.markFresh(&full[i])
			}
		}
		ex.setReg(f, x, Slice{A: a})
	case *ssa.MakeMap:
		ex.nextCh++
		ex.setReg(f, x, &MapObj{m: map[interface{}]Value{}, id: ex.nextCh})
	case *ssa.MakeInterface:
		ex.setReg(f, x, Iface{T: x.X.Type(), V: copyVal(ex.reg(f, x.X))})
	case *ssa.FieldAddr:
		p := ex.reg(f, x.X).(Ptr)
		if p.P == nil {
			panic(goPanic{"nil pointer dereference (field)"})
		}
		s := (*p.P).(Struct)
		ex.setReg(f, x, Ptr{P: &s[x.Field]})
	case *ssa.Field:
		s := ex.reg(f, x.X).(Struct)
		ex.setReg(f, x, copyVal(s[x.Field]))
	case *ssa.IndexAddr:
		base := ex.reg(f, x.X)
		idx := ex.reg(f, x.Index).(Int)
		var arr []Value
		switch b := base.(type) {
		case Slice:
			arr = b.A
		case Ptr:
			if b.P == nil {
				panic(goPanic{"nil pointer dereference (index)"})
			}
			arr = (*b.P).(Array)
		}
		if idx.T != nil {
			// symbolic index into a slice of concrete length: case-split by forking
			idx = ex.concretizeIndex(idx, len(arr))
		}
		if idx.C < 0 || int(idx.C) >= len(arr) {
			panic(goPanic{fmt.Sprintf("index out of range [%d] with length %d", idx.C, len(arr))})
		}
		ex.setReg(f, x, Ptr{P: &arr[idx.C]})
	case *ssa.Index:
		base := ex.reg(f, x.X)
		idx := ex.concInt(ex.reg(f, x.Index), "index")
		switch b := base.(type) {
		case Array:
			if idx < 0 || int(idx) >= len(b) {
				panic(goPanic{"index out of range"})
			}
			ex.setReg(f, x, copyVal(b[idx]))
		case Str:
			if b.T != nil {
				panic(unsupported{"index of symbolic string"})
			}
			if idx < 0 || int(idx) >= len(b.C) {
				panic(goPanic{"string index out of range"})
			}
			ex.setReg(f, x, mkInt(int64(b.C[idx]), 8, true))
		default:
			panic(unsupported{fmt.Sprintf("index of %T", base)})
		}
	case *ssa.Slice:
		ex.setReg(f, x, ex.sliceOp(f, x))
	case *ssa.Extract:
		t := ex.reg(f, x.Tuple).(Tuple)
		ex.setReg(f, x, t[x.Index])
	case *ssa.ChangeType:
		ex.setReg(f, x, ex.reg(f, x.X))
	case *ssa.ChangeInterface:
		ex.setReg(f, x, ex.reg(f, x.X))
	case *ssa.Convert:
		ex.setReg(f, x, ex.convert(ex.reg(f, x.X), x.X.Type(), x.Type()))
	case *ssa.MultiConvert:
		ex.setReg(f, x, ex.convert(ex.reg(f, x.X), x.X.Type(), x.Type()))
	case *ssa.TypeAssert:
		ex.setReg(f, x, ex.typeAssert(x, ex.reg(f, x.X).(Iface)))
	case *ssa.MapUpdate:
		if ex.spec > 0 {
			panic(mergeAbort{"map update in arm"})
		}
		m := ex.reg(f, x.Map).(*MapObj)
		if m == nil {
			panic(goPanic{"assignment to entry in nil map"})
		}
		ex.mapEvent(g, m, true)
		k := ex.mapKey(ex.reg(f, x.Key))
		if _, ok := m.m[k]; !ok {
			m.keys = append(m.keys, ex.reg(f, x.Key))
		}
		m.m[k] = copyVal(ex.reg(f, x.Value))
	case *ssa.Lookup:
		ex.setReg(f, x, ex.lookup(g, x, ex.reg(f, x.X), ex.reg(f, x.Index)))
	case *ssa.Range:
		switch m := ex.reg(f, x.X).(type) {
		case *MapObj:
			it := &rangeIter{m: m}
			if m != nil {
				ex.mapEvent(g, m, false)
				it.keys = append(it.keys, m.keys...)
				if ex.MapOrder != nil {
					it.keys = ex.MapOrder(it.keys)
				}
			}
			ex.setReg(f, x, it)
		case Str:
			ex.setReg(f, x, &rangeIter{isStr: true, str: m.C})
		default:
			panic(unsupported{"range over " + fmt.Sprintf("%T", m)})
		}
	case *ssa.Next:
		it := ex.reg(f, x.Iter).(*rangeIter)
		if it.isStr {
			if it.i >= len(it.str) {
				ex.setReg(f, x, Tuple{Bool{C: false}, mkInt(0, 64, false), mkInt(0, 32, false)})
			} else {
				r, sz := decodeRune(it.str[it.i:])
				ex.setReg(f, x, Tuple{Bool{C: true}, mkInt(int64(it.i), 64, false), mkInt(int64(r), 32, false)})
				it.i += sz
			}
			break
		}
		for it.i < len(it.keys) {
			k := it.keys[it.i]
			if _, ok := it.m.m[ex.mapKey(k)]; ok {
				break
			}
			it.i++
		}
		if it.i >= len(it.keys) {
			ex.setReg(f, x, Tuple{Bool{C: false}, nil, nil})
		} else {
			k := it.keys[it.i]
			it.i++
			ex.setReg(f, x, Tuple{Bool{C: true}, k, copyVal(it.m.m[ex.mapKey(k)])})
		}
	case *ssa.Panic:
		panic(goPanic{"explicit panic: " + ex.describe(ex.reg(f, x.X))})
	case *ssa.DebugRef:
	case *ssa.SliceToArrayPointer:
		panic(unsupported{"slice to array pointer"})
	default:
		panic(unsupported{fmt.Sprintf("instruction %T", in)})
	}
	f.pc++
}

// concretizeIndex forks on the value of a symbolic index: out of range (a
// panic path, if feasible) or one of 0..n-1.
func (ex *Exec) concretizeIndex(idx Int, n int) Int {
	ts := ex.TS
	bits := int(idx.Bits)
	inRange := ts.And(ts.BVCmp("bvsge", idx.T, ts.BVC(0, bits)), ts.BVCmp("bvslt", idx.T, ts.BVC(int64(n), bits)))
	if !ex.decide(inRange) {
		panic(goPanic{fmt.Sprintf("index out of range [symbolic] with length %d", n)})
	}
	for k := 0; k < n-1; k++ {
		if ex.decide(ts.Eq(idx.T, ts.BVC(int64(k), bits))) {
			return mkInt(int64(k), bits, idx.Uns)
		}
	}
	return mkInt(int64(n-1), bits, idx.Uns)
}

func decodeRune(s string) (rune, int) {
	for i, r := range s {
		_ = i
		n := len(string(r))
		if r == 0xFFFD {
			n = 1
		}
		return r, n
	}
	return 0, 0
}

func shortFile(p string) string {
	n := 0
	for i := len(p) - 1; i >= 0; i-- {
		if p[i] == '/' {
			n++
			if n == 2 {
				return p[i+1:]
			}
		}
	}
	return p
}

func (ex *Exec) describe(v Value) string {
	switch x := v.(type) {
	case Iface:
		if x.T == nil {
			return "nil"
		}
		return fmt.Sprintf("%v(%s)", x.T, ex.describe(x.V))
	case Str:
		return x.C
	case Int:
		if x.T == nil {
			return fmt.Sprint(x.C)
		}
		return x.T.String()
	}
	return fmt.Sprintf("%T", v)
}

func (ex *Exec) mapKey(k Value) interface{} {
	switch x := k.(type) {
	case Str:
		if x.T != nil {
			panic(unsupported{"symbolic map key"})
		}
		return "s:" + x.C
	case Int:
		if x.T != nil {
			panic(unsupported{"symbolic map key"})
		}
		return x.C
	case Bool:
		return x.C
	case Ptr:
		return x.P
	case Iface:
		if x.T == nil {
			return nil
		}
		return [2]interface{}{x.T.String(), ex.mapKey(x.V)}
	case Flt:
		if x.Sp != spFin {
			panic(unsupported{"special float as a map key"})
		}
		if x.T == nil && x.R != nil {
			return "f:" + x.R.String()
		}
	}
	panic(unsupported{fmt.Sprintf("map key %T", k)})
}

func (ex *Exec) lookup(g *G, x *ssa.Lookup, m, k Value) Value {
	switch mm := m.(type) {
	case *MapObj:
		et := x.X.Type().Underlying().(*types.Map).Elem()
		var v Value
		ok := false
		if mm != nil {
			ex.mapEvent(g, mm, false)
			v, ok = mm.m[ex.mapKey(k)]
		}
		if !ok {
			v = ex.zero(et)
		} else {
			v = copyVal(v)
		}
		if x.CommaOk {
			return Tuple{v, Bool{C: ok}}
		}
		return v
	case Str:
		i := ex.concInt(k, "string index")
		if i < 0 || int(i) >= len(mm.C) {
			panic(goPanic{"string index out of range"})
		}
		return mkInt(int64(mm.C[i]), 8, true)
	}
	panic(unsupported{fmt.Sprintf("lookup in %T", m)})
}

func (ex *Exec) sliceOp(f *Frame, x *ssa.Slice) Value {
	base := ex.reg(f, x.X)
	limit := 0
	switch b := base.(type) {
	case Slice:
		limit = cap(b.A)
	case Ptr:
		if b.P != nil {
			if a, ok := (*b.P).(Array); ok {
				limit = len(a)
			}
		}
	case Str:
		limit = len(b.C)
	}
	get := func(v ssa.Value, def int) int {
		if v == nil {
			return def
		}
		iv := ex.reg(f, v).(Int)
		if iv.T != nil {
			// symbolic bound: case-split over 0..limit (out of range = the panic path)
			iv = ex.concretizeIndex(iv, limit+1)
		}
		return int(iv.C)
	}
	switch b := base.(type) {
	case Slice:
		lo := get(x.Low, 0)
		hi := get(x.High, len(b.A))
		mx := get(x.Max, cap(b.A))
		if lo < 0 || hi < lo || mx < hi || mx > cap(b.A) {
			panic(goPanic{fmt.Sprintf("slice bounds out of range [%d:%d:%d] with capacity %d", lo, hi, mx, cap(b.A))})
		}
		if b.A == nil {
			return Slice{}
		}
		return Slice{A: b.A[lo:hi:mx]}
	case Ptr:
		if b.P == nil {
			panic(goPanic{"nil pointer dereference (slice of array)"})
		}
		arr := []Value((*b.P).(Array))
		lo := get(x.Low, 0)
		hi := get(x.High, len(arr))
		mx := get(x.Max, len(arr))
		if lo < 0 || hi < lo || mx < hi || mx > len(arr) {
			panic(goPanic{"slice bounds out of range"})
		}
		return Slice{A: arr[lo:hi:mx]}
	case Str:
		if b.T != nil {
			panic(unsupported{"slice of symbolic string"})
		}
		lo := get(x.Low, 0)
		hi := get(x.High, len(b.C))
		if lo < 0 || hi < lo || hi > len(b.C) {
			panic(goPanic{"string slice bounds out of range"})
		}
		return Str{C: b.C[lo:hi]}
	}
	panic(unsupported{fmt.Sprintf("slice of %T", base)})
}

func (ex *Exec) typeAssert(x *ssa.TypeAssert, v Iface) Value {
	ok := false
	var res Value
	if _, isI := x.AssertedType.Underlying().(*types.Interface); isI {
		if v.T != nil {
			ok = types.Implements(v.T, x.AssertedType.Underlying().(*types.Interface))
		}
		res = v
		if !ok {
			res = Iface{}
		}
	} else {
		ok = v.T != nil && types.Identical(v.T, x.AssertedType)
		if ok {
			res = copyVal(v.V)
		} else {
			res = ex.zero(x.AssertedType)
		}
	}
	if x.CommaOk {
		return Tuple{res, Bool{C: ok}}
	}
	if !ok {
		panic(goPanic{fmt.Sprintf("interface conversion: %v is not %v", v.T, x.AssertedType)})
	}
	return res
}

// prepareCall evaluates callee and arguments of a call.
func (ex *Exec) prepareCall(f *Frame, c *ssa.CallCommon) (Value, []Value) {
	var args []Value
	var fn Value
	if c.IsInvoke() {
		recv := ex.reg(f, c.Value).(Iface)
		if recv.T == nil {
			panic(goPanic{"nil interface method call " + c.Method.Name()})
		}
		if rt, ok := recv.V.(reflType); ok {
			// method of the executor's reflect.Type model
			var margs []Value
			for _, a := range c.Args {
				margs = append(margs, ex.reg(f, a))
			}
			return &Closure{ReflMeth: c.Method.Name(), ReflRecv: rt, ReflRes: c.Signature().Results()}, margs
		}
		m := ex.Prog.Prog.LookupMethod(recv.T, c.Method.Pkg(), c.Method.Name())
		if m == nil {
			panic(unsupported{fmt.Sprintf("method %s of %v not found", c.Method.Name(), recv.T)})
		}
		fn = &Closure{Fn: m}
		args = append(args, copyVal(recv.V))
	} else {
		fn = ex.reg(f, c.Value)
	}
	for _, a := range c.Args {
		args = append(args, copyVal(ex.reg(f, a)))
	}
	return fn, args
}

// invoke calls fn; for ordinary functions pushes a frame.
func (ex *Exec) invoke(g *G, f *Frame, call *ssa.Call, fnv Value, args []Value, isDefer bool) {
	cl, _ := fnv.(*Closure)
	if cl == nil {
		panic(goPanic{"call of nil function"})
	}
	var retTo ssa.Value
	if call != nil {
		retTo = call
	}
	if cl.ReflMeth != "" {
		var rtyp types.Type
		if cl.ReflRes != nil && cl.ReflRes.Len() == 1 {
			rtyp = cl.ReflRes.At(0).Type()
		}
		res := ex.reflTypeMethod(cl.ReflMeth, cl.ReflRecv, args, rtyp)
		if retTo != nil {
			ex.setReg(f, retTo, res)
		}
		if !isDefer {
			f.pc++
		}
		return
	}
	if cl.Builtin != nil {
		var ct *ssa.CallCommon
		if call != nil {
			ct = &call.Call
		}
		res, blocked := ex.builtin(g, cl.Builtin, args, ct)
		if blocked {
			return
		}
		if retTo != nil {
			ex.setReg(f, retTo, res)
		}
		if !isDefer {
			f.pc++
		}
		return
	}
	if ex.isIntrinsic(cl.Fn) {
		res, blocked := ex.intrinsic(g, f, cl.Fn, args, call)
		if blocked {
			return
		}
		if retTo != nil {
			ex.setReg(f, retTo, res)
		}
		if !isDefer {
			f.pc++
		}
		return
	}
	if len(g.frames) > 400 {
		panic(budgetExceeded{})
	}
	nf := ex.newFrame(cl.Fn, args, cl.Env)
	nf.retTo = retTo
	nf.isDefer = isDefer
	g.frames = append(g.frames, nf)
}

func (ex *Exec) builtin(g *G, b *ssa.Builtin, args []Value, call *ssa.CallCommon) (Value, bool) {
	switch b.Name() {
	case "len":
		switch x := args[0].(type) {
		case Slice:
			return mkInt(int64(len(x.A)), 64, false), false
		case Str:
			if x.T != nil {
				panic(unsupported{"len of symbolic string"})
			}
			return mkInt(int64(len(x.C)), 64, false), false
		case *MapObj:
			if x == nil {
				return mkInt(0, 64, false), false
			}
			ex.mapEvent(g, x, false)
			return mkInt(int64(len(x.m)), 64, false), false
		case *ChanObj:
			ex.usedLenCh = true
			if x == nil {
				return mkInt(0, 64, false), false
			}
			return mkInt(int64(len(x.buf)), 64, false), false
		case Array:
			return mkInt(int64(len(x)), 64, false), false
		case Ptr:
			return mkInt(int64(len((*x.P).(Array))), 64, false), false
		}
	case "cap":
		switch x := args[0].(type) {
		case Slice:
			return mkInt(int64(cap(x.A)), 64, false), false
		case *ChanObj:
			if x == nil {
				return mkInt(0, 64, false), false
			}
			return mkInt(int64(x.cap), 64, false), false
		case Array:
			return mkInt(int64(len(x)), 64, false), false
		}
	case "append":
		s := args[0].(Slice)
		switch t := args[1].(type) {
		case Slice:
			if len(t.A) == 0 {
				return s, false
			}
			na := s.A
			for _, v := range t.A {
				if ex.undo != nil && len(na) < cap(na) {
					// writing into shared spare capacity: log it
					full := na[:len(na)+1]
					*ex.undo = append(*ex.undo, undoRec{&full[len(na)], full[len(na)]})
				}
				na = append(na, copyVal(v))
			}
			return Slice{A: na}, false
		case Str:
			na := s.A
			for i := 0; i < len(t.C); i++ {
				na = append(na, mkInt(int64(t.C[i]), 8, true))
			}
			return Slice{A: na}, false
		}
	case "copy":
		d := args[0].(Slice)
		switch s := args[1].(type) {
		case Slice:
			n := min(len(d.A), len(s.A))
			tmp := make([]Value, n)
			for i := 0; i < n; i++ {
				tmp[i] = copyVal(s.A[i])
			}
			for i := 0; i < n; i++ {
				ex.write(&d.A[i], tmp[i])
			}
			return mkInt(int64(n), 64, false), false
		}
	case "close":
		ex.closeChan(g, args[0].(*ChanObj))
		return nil, false
	case "delete":
		m := args[0].(*MapObj)
		if ex.spec > 0 {
			panic(mergeAbort{"delete in arm"})
		}
		if m != nil {
			ex.mapEvent(g, m, true)
			delete(m.m, ex.mapKey(args[1]))
		}
		return nil, false
	case "print", "println":
		return nil, false
	case "recover":
		return Iface{}, false
	case "min", "max":
		r := args[0]
		for _, a := range args[1:] {
			var c Value
			if b.Name() == "min" {
				c = ex.binop(token.LSS, a, r, call.Args[0].Type())
			} else {
				c = ex.binop(token.GTR, a, r, call.Args[0].Type())
			}
			cb := c.(Bool)
			if cb.T == nil {
				if cb.C {
					r = a
				}
			} else {
				m, _ := ex.mergeVal(cb.T, a, r)
				r = m
			}
		}
		return r, false
	}
	panic(unsupported{"builtin " + b.Name() + fmt.Sprintf(" on %T", args[0])})
}
