package sym

import (
	"fmt"
	"go/types"
	"math/big"

	"golang.org/x/tools/go/ssa"
)

// Value is a runtime value of the executor.
type Value interface{}

// Int is an integer of a given width; symbolic iff T != nil.
type Int struct {
	Bits uint8
	Uns  bool
	C    int64
	T    *Term
}

// Flt is a float. Real mode: R (exact rational) or T of sort Real.
// FP mode: F or T of sort FP. NaN marks a concrete NaN in real mode (poison).
type Flt struct {
	Bits uint8
	R    *big.Rat
	F    float64
	T    *Term
	Sp   uint8 // real mode, zero-denominator exploration: concrete +Inf / -Inf / NaN (special.go)
}

type Bool struct {
	C bool
	T *Term
}

type Str struct {
	C string
	T *Term
}

// Ptr points at a slot; P == nil is the nil pointer.
type Ptr struct {
	P *Value
}

type Struct []Value
type Array []Value
type Tuple []Value

// Slice shares its backing Go slice; nil slice has A == nil.
type Slice struct {
	A []Value
}

type Iface struct {
	T types.Type // nil => nil interface
	V Value
}

type Closure struct {
	Fn  *ssa.Function
	Env []Value
	// Bound method value / builtin wrappers
	Builtin *ssa.Builtin
	// method of the reflect.Type model
	ReflMeth string
	ReflRecv reflType
	ReflRes  *types.Tuple
}

type MapObj struct {
	keys []Value // insertion order (concrete keys)
	m    map[interface{}]Value
	id   int
}

type waiter struct {
	g       *G
	val     Value           // pending send value
	instr   ssa.Instruction // receive instruction whose register gets the value
	commaOk bool
	ev      *Event
}

type ChanObj struct {
	id       int
	cap      int
	buf      []Value
	bufEv    []*Event // send events of buffered values
	closed   bool
	closeEv  *Event
	recvq    []*waiter
	sendq    []*waiter
	nSend    int
	nRecv    int
	sendEvs  []*Event
	recvEvs  []*Event
	elem     types.Type
	internal bool // harness-owned
}

type rangeIter struct {
	m     *MapObj
	keys  []Value
	i     int
	str   string
	isStr bool
}

func mkInt(c int64, bits int, uns bool) Int {
	return Int{Bits: uint8(bits), Uns: uns, C: wrapInt(c, bits, uns)}
}

func (i Int) IsConc() bool  { return i.T == nil }
func (f Flt) IsConc() bool  { return f.T == nil }
func (b Bool) IsConc() bool { return b.T == nil }

func intInfo(t types.Type) (bits int, uns bool, ok bool) {
	b, isB := t.Underlying().(*types.Basic)
	if !isB {
		return 0, false, false
	}
	switch b.Kind() {
	case types.Int, types.Int64, types.UntypedInt, types.UntypedRune:
		return 64, false, true
	case types.Int8:
		return 8, false, true
	case types.Int16:
		return 16, false, true
	case types.Int32:
		return 32, false, true
	case types.Uint, types.Uint64, types.Uintptr:
		return 64, true, true
	case types.Uint8:
		return 8, true, true
	case types.Uint16:
		return 16, true, true
	case types.Uint32:
		return 32, true, true
	}
	return 0, false, false
}

func floatBits(t types.Type) (int, bool) {
	b, isB := t.Underlying().(*types.Basic)
	if !isB {
		return 0, false
	}
	switch b.Kind() {
	case types.Float64, types.UntypedFloat:
		return 64, true
	case types.Float32:
		return 32, true
	}
	return 0, false
}

// zero value of a type.
func (ex *Exec) zero(t types.Type) Value {
	switch u := t.Underlying().(type) {
	case *types.Basic:
		if bits, uns, ok := intInfo(u); ok {
			return Int{Bits: uint8(bits), Uns: uns}
		}
		if bits, ok := floatBits(u); ok {
			return ex.fltC(0, bits)
		}
		switch u.Kind() {
		case types.Bool, types.UntypedBool:
			return Bool{}
		case types.String, types.UntypedString:
			return Str{}
		case types.UnsafePointer:
			return Ptr{}
		case types.UntypedNil:
			return Ptr{}
		}
	case *types.Pointer:
		return Ptr{}
	case *types.Struct:
		s := make(Struct, u.NumFields())
		for i := range s {
			s[i] = ex.zero(u.Field(i).Type())
		}
		return s
	case *types.Array:
		a := make(Array, u.Len())
		for i := range a {
			a[i] = ex.zero(u.Elem())
		}
		return a
	case *types.Slice:
		return Slice{}
	case *types.Map:
		return (*MapObj)(nil)
	case *types.Chan:
		return (*ChanObj)(nil)
	case *types.Signature:
		return (*Closure)(nil)
	case *types.Interface:
		return Iface{}
	case *types.Tuple:
		tp := make(Tuple, u.Len())
		for i := range tp {
			tp[i] = ex.zero(u.At(i).Type())
		}
		return tp
	}
	panic(unsupported{fmt.Sprintf("zero value of %v", t)})
}

func (ex *Exec) fltC(f float64, bits int) Flt {
	if ex.FPMode {
		if bits == 32 {
			f = float64(float32(f))
		}
		return Flt{Bits: uint8(bits), F: f}
	}
	r := new(big.Rat)
	r.SetFloat64(f)
	return Flt{Bits: uint8(bits), R: r}
}

func (ex *Exec) fltR(r *big.Rat, bits int) Flt {
	if ex.FPMode {
		f, _ := r.Float64()
		if bits == 32 {
			f = float64(float32(f))
		}
		return Flt{Bits: uint8(bits), F: f}
	}
	return Flt{Bits: uint8(bits), R: r}
}

// copyVal deep-copies aggregates (value semantics).
func copyVal(v Value) Value {
	switch x := v.(type) {
	case Struct:
		c := make(Struct, len(x))
		for i := range x {
			c[i] = copyVal(x[i])
		}
		return c
	case Array:
		c := make(Array, len(x))
		for i := range x {
			c[i] = copyVal(x[i])
		}
		return c
	case Tuple:
		c := make(Tuple, len(x))
		for i := range x {
			c[i] = copyVal(x[i])
		}
		return c
	}
	return v
}

// term conversions

func (ex *Exec) intTerm(i Int) *Term {
	if i.T != nil {
		return i.T
	}
	return ex.TS.BVC(i.C, int(i.Bits))
}

func (ex *Exec) fltTerm(f Flt) *Term {
	if f.Sp != spFin {
		panic(unsupported{"special float value (" + spName(f.Sp) + ") in a term context"})
	}
	if f.T != nil {
		return f.T
	}
	if ex.FPMode {
		return ex.TS.FPC(f.F, int(f.Bits))
	}
	return ex.TS.RealC(f.R)
}

func (ex *Exec) boolTerm(b Bool) *Term {
	if b.T != nil {
		return b.T
	}
	return ex.TS.BoolC(b.C)
}

func (ex *Exec) strTerm(s Str) *Term {
	if s.T != nil {
		return s.T
	}
	return ex.TS.StrC(s.C)
}

func (ex *Exec) boolOf(t *Term) Bool {
	if t.isConst {
		return Bool{C: t.bv}
	}
	return Bool{T: t}
}

func (ex *Exec) intOf(t *Term, bits int, uns bool) Int {
	if t.isConst {
		return mkInt(t.iv, bits, uns)
	}
	return Int{Bits: uint8(bits), Uns: uns, T: t}
}

func (ex *Exec) fltOf(t *Term, bits int) Flt {
	if t.isConst {
		if ex.FPMode {
			return Flt{Bits: uint8(bits), F: t.fv}
		}
		return Flt{Bits: uint8(bits), R: t.rat}
	}
	return Flt{Bits: uint8(bits), T: t}
}

// mergeVal builds ite(c, a, b) for mergeable values.
func (ex *Exec) mergeVal(c *Term, a, b Value) (Value, bool) {
	switch x := a.(type) {
	case Int:
		y, ok := b.(Int)
		if !ok {
			return nil, false
		}
		if x.T == nil && y.T == nil && x.C == y.C {
			return x, true
		}
		return ex.intOf(ex.TS.Ite(c, ex.intTerm(x), ex.intTerm(y)), int(x.Bits), x.Uns), true
	case Flt:
		y, ok := b.(Flt)
		if !ok {
			return nil, false
		}
		if x.Sp != spFin || y.Sp != spFin {
			return x, x.Sp == y.Sp // specials are concrete: different ones cannot be merged
		}
		return ex.fltOf(ex.TS.Ite(c, ex.fltTerm(x), ex.fltTerm(y)), int(x.Bits)), true
	case Bool:
		y, ok := b.(Bool)
		if !ok {
			return nil, false
		}
		return ex.boolOf(ex.TS.Ite(c, ex.boolTerm(x), ex.boolTerm(y))), true
	case Str:
		y, ok := b.(Str)
		if !ok {
			return nil, false
		}
		if x.T == nil && y.T == nil && x.C == y.C {
			return x, true
		}
		t := ex.TS.Ite(c, ex.strTerm(x), ex.strTerm(y))
		if t.isConst {
			return Str{C: t.sv}, true
		}
		return Str{T: t}, true
	case Struct:
		y, ok := b.(Struct)
		if !ok || len(x) != len(y) {
			return nil, false
		}
		r := make(Struct, len(x))
		for i := range x {
			v, ok := ex.mergeVal(c, x[i], y[i])
			if !ok {
				return nil, false
			}
			r[i] = v
		}
		return r, true
	case Array:
		y, ok := b.(Array)
		if !ok || len(x) != len(y) {
			return nil, false
		}
		r := make(Array, len(x))
		for i := range x {
			v, ok := ex.mergeVal(c, x[i], y[i])
			if !ok {
				return nil, false
			}
			r[i] = v
		}
		return r, true
	case Tuple:
		y, ok := b.(Tuple)
		if !ok || len(x) != len(y) {
			return nil, false
		}
		r := make(Tuple, len(x))
		for i := range x {
			v, ok := ex.mergeVal(c, x[i], y[i])
			if !ok {
				return nil, false
			}
			r[i] = v
		}
		return r, true
	case Ptr:
		y, ok := b.(Ptr)
		return x, ok && x.P == y.P
	case Slice:
		y, ok := b.(Slice)
		if !ok || len(x.A) != len(y.A) {
			return nil, false
		}
		if len(x.A) == 0 {
			return x, (x.A == nil) == (y.A == nil)
		}
		return x, &x.A[0] == &y.A[0]
	case *ChanObj:
		y, ok := b.(*ChanObj)
		return x, ok && x == y
	case *Closure:
		y, ok := b.(*Closure)
		return x, ok && x == y
	case *MapObj:
		y, ok := b.(*MapObj)
		return x, ok && x == y
	case Iface:
		y, ok := b.(Iface)
		if !ok {
			return nil, false
		}
		if x.T == nil || y.T == nil {
			return x, x.T == nil && y.T == nil
		}
		if !types.Identical(x.T, y.T) {
			return nil, false
		}
		v, ok := ex.mergeVal(c, x.V, y.V)
		return Iface{T: x.T, V: v}, ok
	case nil:
		return nil, b == nil
	}
	return nil, false
}

// sameVal is a cheap identity test used to skip merging untouched values.
func sameVal(a, b Value) bool {
	switch x := a.(type) {
	case Int:
		y, ok := b.(Int)
		return ok && x == y
	case Flt:
		y, ok := b.(Flt)
		if !ok {
			return false
		}
		if x.Sp != y.Sp {
			return false
		}
		if x.T != nil || y.T != nil {
			return x.T == y.T
		}
		if x.R != nil && y.R != nil {
			return x.R.Cmp(y.R) == 0
		}
		return x.R == nil && y.R == nil && x.F == y.F
	case Bool:
		y, ok := b.(Bool)
		return ok && x == y
	case Str:
		y, ok := b.(Str)
		return ok && x == y
	case Ptr:
		y, ok := b.(Ptr)
		return ok && x == y
	case *ChanObj:
		y, ok := b.(*ChanObj)
		return ok && x == y
	case *Closure:
		y, ok := b.(*Closure)
		return ok && x == y
	case *MapObj:
		y, ok := b.(*MapObj)
		return ok && x == y
	case nil:
		return b == nil
	}
	return false
}
