package sym

import (
	"fmt"
	"go/types"
	"reflect"

	"golang.org/x/tools/go/ssa"
)

// A small model of package reflect, answered from go/types: enough for code that
// walks the fields of a struct type and addresses the fields of a struct value
// (helper.NewCsv, Csv.ReadFromReader), and for reading / writing scalar fields through
// reflect.Value (serial.go).

// reflType is the executor's reflect.Type value.
type reflType struct{ t types.Type }

// reflValue is the executor's reflect.Value: an addressable slot and its type.
type reflValue struct {
	p *Value
	t types.Type
}

var reflIntrinsics = map[string]bool{
	"reflect.TypeOf": true, "reflect.ValueOf": true,
	"(reflect.Value).Elem": true, "(reflect.Value).Field": true, "(reflect.Value).Kind": true, "(reflect.Value).Type": true,
	"(reflect.Value).NumField": true, "(reflect.StructTag).Lookup": true, "(reflect.StructTag).Get": true,
	"(reflect.Kind).String": true,
}

func kindOf(t types.Type) reflect.Kind {
	switch u := t.Underlying().(type) {
	case *types.Basic:
		switch u.Kind() {
		case types.Bool:
			return reflect.Bool
		case types.Int:
			return reflect.Int
		case types.Int8:
			return reflect.Int8
		case types.Int16:
			return reflect.Int16
		case types.Int32:
			return reflect.Int32
		case types.Int64:
			return reflect.Int64
		case types.Uint:
			return reflect.Uint
		case types.Uint8:
			return reflect.Uint8
		case types.Uint16:
			return reflect.Uint16
		case types.Uint32:
			return reflect.Uint32
		case types.Uint64:
			return reflect.Uint64
		case types.Float32:
			return reflect.Float32
		case types.Float64:
			return reflect.Float64
		case types.String:
			return reflect.String
		}
	case *types.Struct:
		return reflect.Struct
	case *types.Pointer:
		return reflect.Pointer
	case *types.Slice:
		return reflect.Slice
	case *types.Map:
		return reflect.Map
	case *types.Interface:
		return reflect.Interface
	case *types.Chan:
		return reflect.Chan
	case *types.Signature:
		return reflect.Func
	case *types.Array:
		return reflect.Array
	}
	return reflect.Invalid
}

func (ex *Exec) reflTypeIface(t types.Type) Value {
	return Iface{T: ex.Prog.ReflTypeT, V: reflType{t}}
}

// reflTypeMethod implements the methods of reflect.Type used by the library.
func (ex *Exec) reflTypeMethod(name string, rt reflType, args []Value, res types.Type) Value {
	switch name {
	case "Elem":
		switch u := rt.t.Underlying().(type) {
		case *types.Pointer:
			return ex.reflTypeIface(u.Elem())
		case *types.Slice:
			return ex.reflTypeIface(u.Elem())
		}
		panic(goPanic{"reflect: Elem of invalid type " + rt.t.String()})
	case "Kind":
		return mkInt(int64(kindOf(rt.t)), 64, true)
	case "NumField":
		st, ok := rt.t.Underlying().(*types.Struct)
		if !ok {
			panic(goPanic{"reflect: NumField of non-struct type"})
		}
		return mkInt(int64(st.NumFields()), 64, false)
	case "Field":
		st, ok := rt.t.Underlying().(*types.Struct)
		i := int(ex.concInt(args[0], "reflect Field index"))
		if !ok || i < 0 || i >= st.NumFields() {
			panic(goPanic{"reflect: Field index out of range"})
		}
		// reflect.StructField{Name, PkgPath, Type, Tag, Offset, Index, Anonymous}
		sf := ex.zero(res).(Struct)
		f := st.Field(i)
		sf[0] = Str{C: f.Name()}
		if !f.Exported() && f.Pkg() != nil {
			sf[1] = Str{C: f.Pkg().Path()}
		}
		sf[2] = ex.reflTypeIface(f.Type())
		sf[3] = Str{C: st.Tag(i)}
		sf[5] = Slice{A: []Value{mkInt(int64(i), 64, false)}}
		sf[6] = Bool{C: f.Embedded()}
		return sf
	case "String":
		return Str{C: types.TypeString(rt.t, func(p *types.Package) string { return p.Name() })}
	case "Name":
		if n, ok := rt.t.(*types.Named); ok {
			return Str{C: n.Obj().Name()}
		}
		return Str{C: ""}
	}
	panic(unsupported{"reflect.Type." + name})
}

func (ex *Exec) reflIntrinsic(n string, fn *ssa.Function, args []Value) Value {
	if v, ok := ex.reflValueOp(n, args); ok {
		return v
	}
	switch n {
	case "reflect.TypeOf":
		i := args[0].(Iface)
		if i.T == nil {
			return Iface{}
		}
		return ex.reflTypeIface(i.T)
	case "reflect.ValueOf":
		i := args[0].(Iface)
		if i.T == nil {
			return reflValue{}
		}
		p := new(Value)
		*p = i.V
		return reflValue{p: p, t: i.T}
	case "(reflect.Value).Elem":
		v := args[0].(reflValue)
		pt, ok := v.t.Underlying().(*types.Pointer)
		if !ok {
			panic(goPanic{"reflect: call of reflect.Value.Elem on non-pointer"})
		}
		ptr := (*v.p).(Ptr)
		if ptr.P == nil {
			return reflValue{}
		}
		return reflValue{p: ptr.P, t: pt.Elem()}
	case "(reflect.Value).Field":
		v := args[0].(reflValue)
		st, ok := v.t.Underlying().(*types.Struct)
		i := int(ex.concInt(args[1], "reflect Field index"))
		if !ok || i < 0 || i >= st.NumFields() {
			panic(goPanic{"reflect: Field index out of range"})
		}
		s := (*v.p).(Struct)
		return reflValue{p: &s[i], t: st.Field(i).Type()}
	case "(reflect.Value).NumField":
		v := args[0].(reflValue)
		return mkInt(int64(v.t.Underlying().(*types.Struct).NumFields()), 64, false)
	case "(reflect.Value).Kind":
		v := args[0].(reflValue)
		if v.t == nil {
			return mkInt(0, 64, true)
		}
		return mkInt(int64(kindOf(v.t)), 64, true)
	case "(reflect.Value).Type":
		return ex.reflTypeIface(args[0].(reflValue).t)
	case "(reflect.StructTag).Lookup":
		val, ok := reflect.StructTag(strArg(args[0])).Lookup(strArg(args[1]))
		return Tuple{Str{C: val}, Bool{C: ok}}
	case "(reflect.StructTag).Get":
		return Str{C: reflect.StructTag(strArg(args[0])).Get(strArg(args[1]))}
	case "(reflect.Kind).String":
		return Str{C: reflect.Kind(ex.concInt(args[0], "kind")).String()}
	}
	panic(unsupported{fmt.Sprintf("reflect intrinsic %s", n)})
}
