package sym

import (
	"fmt"
	"go/token"
	"go/types"
	"math"
	"math/big"

	"golang.org/x/tools/go/ssa"
)

func (ex *Exec) unop(g *G, x *ssa.UnOp, v Value) Value {
	switch x.Op {
	case token.MUL: // load
		p := v.(Ptr)
		if p.P == nil {
			panic(goPanic{"nil pointer dereference (load)"})
		}
		ex.memEvent(g, p.P, false)
		return copyVal(*p.P)
	case token.NOT:
		b := v.(Bool)
		if b.T == nil {
			return Bool{C: !b.C}
		}
		return ex.boolOf(ex.TS.Not(b.T))
	case token.SUB:
		switch a := v.(type) {
		case Int:
			if a.T == nil {
				return mkInt(-a.C, int(a.Bits), a.Uns)
			}
			return ex.intOf(ex.TS.BVNeg(a.T), int(a.Bits), a.Uns)
		case Flt:
			return ex.fneg(a)
		}
	case token.XOR:
		a := v.(Int)
		if a.T == nil {
			return mkInt(^a.C, int(a.Bits), a.Uns)
		}
		return ex.intOf(ex.TS.Op(a.T.sort, "bvnot", a.T), int(a.Bits), a.Uns)
	}
	panic(unsupported{fmt.Sprintf("unop %v on %T", x.Op, v)})
}

func (ex *Exec) fneg(a Flt) Flt {
	if a.Sp != spFin {
		if a.Sp == spNaN {
			return a
		}
		return special(a.Bits, 3-a.Sp)
	}
	if a.T == nil {
		if ex.FPMode {
			return Flt{Bits: a.Bits, F: -a.F}
		}
		return Flt{Bits: a.Bits, R: new(big.Rat).Neg(a.R)}
	}
	if ex.FPMode {
		return ex.fltOf(ex.TS.FPNeg(a.T), int(a.Bits))
	}
	return ex.fltOf(ex.TS.RNeg(a.T), int(a.Bits))
}

func (ex *Exec) binop(op token.Token, a, b Value, t types.Type) Value {
	switch x := a.(type) {
	case Int:
		return ex.intBinop(op, x, b.(Int))
	case Flt:
		return ex.fltBinop(op, x, b.(Flt))
	case Bool:
		y := b.(Bool)
		switch op {
		case token.EQL:
			return ex.boolOf(ex.TS.Eq(ex.boolTerm(x), ex.boolTerm(y)))
		case token.NEQ:
			return ex.boolOf(ex.TS.Not(ex.TS.Eq(ex.boolTerm(x), ex.boolTerm(y))))
		case token.AND, token.LAND:
			return ex.boolOf(ex.TS.And(ex.boolTerm(x), ex.boolTerm(y)))
		case token.OR, token.LOR:
			return ex.boolOf(ex.TS.Or(ex.boolTerm(x), ex.boolTerm(y)))
		}
	case Str:
		y := b.(Str)
		if x.T == nil && y.T == nil {
			switch op {
			case token.ADD:
				return Str{C: x.C + y.C}
			case token.EQL:
				return Bool{C: x.C == y.C}
			case token.NEQ:
				return Bool{C: x.C != y.C}
			case token.LSS:
				return Bool{C: x.C < y.C}
			case token.LEQ:
				return Bool{C: x.C <= y.C}
			case token.GTR:
				return Bool{C: x.C > y.C}
			case token.GEQ:
				return Bool{C: x.C >= y.C}
			}
		}
		switch op {
		case token.EQL:
			return ex.boolOf(ex.TS.Eq(ex.strTerm(x), ex.strTerm(y)))
		case token.NEQ:
			return ex.boolOf(ex.TS.Not(ex.TS.Eq(ex.strTerm(x), ex.strTerm(y))))
		}
	}
	switch op {
	case token.EQL:
		return ex.boolOf(ex.eqTerm(a, b))
	case token.NEQ:
		return ex.boolOf(ex.TS.Not(ex.eqTerm(a, b)))
	}
	panic(unsupported{fmt.Sprintf("binop %v on %T", op, a)})
}

// eqTerm is Go's == on arbitrary comparable values.
func (ex *Exec) eqTerm(a, b Value) *Term {
	ts := ex.TS
	switch x := a.(type) {
	case Int:
		return ts.Eq(ex.intTerm(x), ex.intTerm(b.(Int)))
	case Flt:
		if y := b.(Flt); x.Sp != spFin || y.Sp != spFin {
			return ts.BoolC(x.Sp == y.Sp) // "the same value": NaN matches NaN here
		}
		return ts.Eq(ex.fltTerm(x), ex.fltTerm(b.(Flt)))
	case Bool:
		return ts.Eq(ex.boolTerm(x), ex.boolTerm(b.(Bool)))
	case Str:
		return ts.Eq(ex.strTerm(x), ex.strTerm(b.(Str)))
	case Ptr:
		return ts.BoolC(x.P == b.(Ptr).P)
	case *ChanObj:
		return ts.BoolC(x == b.(*ChanObj))
	case *MapObj:
		return ts.BoolC(x == b.(*MapObj))
	case *Closure:
		y, _ := b.(*Closure)
		return ts.BoolC(x == y) // only nil comparisons are legal Go
	case Slice:
		y := b.(Slice)
		return ts.BoolC((x.A == nil) == (y.A == nil)) // only nil comparison legal
	case Iface:
		y := b.(Iface)
		if x.T == nil || y.T == nil {
			return ts.BoolC(x.T == nil && y.T == nil)
		}
		if !types.Identical(x.T, y.T) {
			return ts.BoolC(false)
		}
		return ex.eqTerm(x.V, y.V)
	case Struct:
		y := b.(Struct)
		r := ts.BoolC(true)
		for i := range x {
			r = ts.And(r, ex.eqTerm(x[i], y[i]))
		}
		return r
	case Array:
		y := b.(Array)
		r := ts.BoolC(true)
		for i := range x {
			r = ts.And(r, ex.eqTerm(x[i], y[i]))
		}
		return r
	case nil:
		return ts.BoolC(b == nil)
	}
	panic(unsupported{fmt.Sprintf("== on %T", a)})
}

func (ex *Exec) intBinop(op token.Token, a, b Int) Value {
	bits, uns := int(a.Bits), a.Uns
	if a.T == nil && b.T == nil {
		x, y := a.C, b.C
		ux, uy := uint64(wrapInt(x, bits, true)), uint64(wrapInt(y, bits, true))
		if bits == 64 {
			ux, uy = uint64(x), uint64(y)
		}
		switch op {
		case token.ADD:
			return mkInt(x+y, bits, uns)
		case token.SUB:
			return mkInt(x-y, bits, uns)
		case token.MUL:
			return mkInt(x*y, bits, uns)
		case token.QUO:
			if y == 0 {
				panic(goPanic{"integer divide by zero"})
			}
			if uns {
				return mkInt(int64(ux/uy), bits, uns)
			}
			return mkInt(x/y, bits, uns)
		case token.REM:
			if y == 0 {
				panic(goPanic{"integer divide by zero"})
			}
			if uns {
				return mkInt(int64(ux%uy), bits, uns)
			}
			return mkInt(x%y, bits, uns)
		case token.AND:
			return mkInt(x&y, bits, uns)
		case token.OR:
			return mkInt(x|y, bits, uns)
		case token.XOR:
			return mkInt(x^y, bits, uns)
		case token.AND_NOT:
			return mkInt(x&^y, bits, uns)
		case token.SHL:
			sh := uint64(b.C)
			if !b.Uns && b.C < 0 {
				panic(goPanic{"negative shift amount"})
			}
			if sh >= 64 {
				return mkInt(0, bits, uns)
			}
			return mkInt(x<<sh, bits, uns)
		case token.SHR:
			sh := uint64(b.C)
			if !b.Uns && b.C < 0 {
				panic(goPanic{"negative shift amount"})
			}
			if uns {
				if sh >= 64 {
					return mkInt(0, bits, uns)
				}
				return mkInt(int64(ux>>sh), bits, uns)
			}
			if sh >= 64 {
				sh = 63
			}
			return mkInt(x>>sh, bits, uns)
		case token.EQL:
			return Bool{C: x == y}
		case token.NEQ:
			return Bool{C: x != y}
		case token.LSS:
			if uns {
				return Bool{C: ux < uy}
			}
			return Bool{C: x < y}
		case token.LEQ:
			if uns {
				return Bool{C: ux <= uy}
			}
			return Bool{C: x <= y}
		case token.GTR:
			if uns {
				return Bool{C: ux > uy}
			}
			return Bool{C: x > y}
		case token.GEQ:
			if uns {
				return Bool{C: ux >= uy}
			}
			return Bool{C: x >= y}
		}
		panic(unsupported{fmt.Sprintf("int binop %v", op)})
	}
	ts := ex.TS
	ta, tb := ex.intTerm(a), ex.intTerm(b)
	arith := func(name string) Value { return ex.intOf(ts.BVBin(name, ta, tb), bits, uns) }
	cmp := func(s, u string) Value {
		if uns {
			return ex.boolOf(ts.BVCmp(u, ta, tb))
		}
		return ex.boolOf(ts.BVCmp(s, ta, tb))
	}
	switch op {
	case token.ADD:
		return arith("bvadd")
	case token.SUB:
		return arith("bvsub")
	case token.MUL:
		return arith("bvmul")
	case token.AND:
		return arith("bvand")
	case token.OR:
		return arith("bvor")
	case token.XOR:
		return arith("bvxor")
	case token.QUO, token.REM:
		if b.T == nil && b.C != 0 {
			n := "bvsdiv"
			if op == token.REM {
				n = "bvsrem"
			}
			if uns {
				n = "bvudiv"
				if op == token.REM {
					n = "bvurem"
				}
			}
			return arith(n)
		}
		// symbolic divisor: assume non-zero is NOT sound for panics; check it
		nz := ts.Not(ts.Eq(tb, ts.BVC(0, bits)))
		r, _ := ex.Sol.Check([]*Term{ex.guardTerm(), ts.Not(nz)}, nil)
		if r != Unsat {
			panic(unsupported{"integer division by a possibly-zero symbolic divisor at " + ex.where()})
		}
		n := "bvsdiv"
		if op == token.REM {
			n = "bvsrem"
		}
		return arith(n)
	case token.EQL:
		return ex.boolOf(ts.Eq(ta, tb))
	case token.NEQ:
		return ex.boolOf(ts.Not(ts.Eq(ta, tb)))
	case token.LSS:
		return cmp("bvslt", "bvult")
	case token.LEQ:
		return cmp("bvsle", "bvule")
	case token.GTR:
		return cmp("bvsgt", "bvugt")
	case token.GEQ:
		return cmp("bvsge", "bvuge")
	case token.SHL, token.SHR:
		if b.T == nil {
			sh := ts.BVC(b.C, bits)
			if op == token.SHL {
				return ex.intOf(ts.Op(ta.sort, "bvshl", ta, sh), bits, uns)
			}
			if uns {
				return ex.intOf(ts.Op(ta.sort, "bvlshr", ta, sh), bits, uns)
			}
			return ex.intOf(ts.Op(ta.sort, "bvashr", ta, sh), bits, uns)
		}
	}
	panic(unsupported{fmt.Sprintf("symbolic int binop %v", op)})
}

func (ex *Exec) guardTerm() *Term {
	g := ex.TS.BoolC(true)
	for _, x := range ex.guards {
		g = ex.TS.And(g, x)
	}
	return g
}

func (ex *Exec) fltBinop(op token.Token, a, b Flt) Value {
	bits := int(a.Bits)
	ts := ex.TS
	if ex.FPMode {
		if a.T == nil && b.T == nil {
			x, y := a.F, b.F
			var r float64
			switch op {
			case token.ADD:
				r = x + y
			case token.SUB:
				r = x - y
			case token.MUL:
				r = x * y
			case token.QUO:
				r = x / y
			case token.EQL:
				return Bool{C: x == y}
			case token.NEQ:
				return Bool{C: x != y}
			case token.LSS:
				return Bool{C: x < y}
			case token.LEQ:
				return Bool{C: x <= y}
			case token.GTR:
				return Bool{C: x > y}
			case token.GEQ:
				return Bool{C: x >= y}
			}
			if bits == 32 {
				r = float64(float32(r)) // double rounding is innocuous for + - * / of float32 operands
			}
			return Flt{Bits: a.Bits, F: r}
		}
		ta, tb := ex.fltTerm(a), ex.fltTerm(b)
		switch op {
		case token.ADD:
			return ex.fltOf(ts.FPBin("fp.add", ta, tb), bits)
		case token.SUB:
			return ex.fltOf(ts.FPBin("fp.sub", ta, tb), bits)
		case token.MUL:
			return ex.fltOf(ts.FPBin("fp.mul", ta, tb), bits)
		case token.QUO:
			return ex.fltOf(ts.FPBin("fp.div", ta, tb), bits)
		case token.EQL:
			return ex.boolOf(ts.FPCmp("fp.eq", ta, tb))
		case token.NEQ:
			return ex.boolOf(ts.Not(ts.FPCmp("fp.eq", ta, tb)))
		case token.LSS:
			return ex.boolOf(ts.FPCmp("fp.lt", ta, tb))
		case token.LEQ:
			return ex.boolOf(ts.FPCmp("fp.leq", ta, tb))
		case token.GTR:
			return ex.boolOf(ts.FPCmp("fp.gt", ta, tb))
		case token.GEQ:
			return ex.boolOf(ts.FPCmp("fp.geq", ta, tb))
		}
		panic(unsupported{fmt.Sprintf("fp binop %v", op)})
	}
	// real mode
	if a.Sp != spFin || b.Sp != spFin {
		return ex.spBinop(op, a, b)
	}
	if a.T == nil && b.T == nil {
		x, y := a.R, b.R
		switch op {
		case token.ADD:
			return Flt{Bits: a.Bits, R: new(big.Rat).Add(x, y)}
		case token.SUB:
			return Flt{Bits: a.Bits, R: new(big.Rat).Sub(x, y)}
		case token.MUL:
			return Flt{Bits: a.Bits, R: new(big.Rat).Mul(x, y)}
		case token.QUO:
			if y.Sign() == 0 {
				// concrete division by zero (NaN/Inf natively): an unspecified but
				// functional value, so that identical computations still agree
				if ex.IEEE {
					return ex.ieeeDivZero(a)
				}
				return ex.divZero(a)
			}
			return Flt{Bits: a.Bits, R: new(big.Rat).Quo(x, y)}
		}
		c := x.Cmp(y)
		switch op {
		case token.EQL:
			return Bool{C: c == 0}
		case token.NEQ:
			return Bool{C: c != 0}
		case token.LSS:
			return Bool{C: c < 0}
		case token.LEQ:
			return Bool{C: c <= 0}
		case token.GTR:
			return Bool{C: c > 0}
		case token.GEQ:
			return Bool{C: c >= 0}
		}
		panic(unsupported{fmt.Sprintf("real binop %v", op)})
	}
	ta, tb := ex.fltTerm(a), ex.fltTerm(b)
	switch op {
	case token.ADD:
		return ex.fltOf(ts.RAdd(ta, tb), bits)
	case token.SUB:
		return ex.fltOf(ts.RSub(ta, tb), bits)
	case token.MUL:
		return ex.fltOf(ts.RMul(ta, tb), bits)
	case token.QUO:
		if !tb.isConst {
			isZero := ts.Eq(tb, ts.RealC(ratZero))
			if ex.ZeroDen > 0 && ex.spec == 0 && len(ex.guards) == 0 {
				// zero-denominator exploration: a bounded number of executed divisions may
				// have a zero denominator on a path; the quotient is then the unspecified
				// (NaN / Inf natively) term (/ a 0) and value assertions over it are exempt,
				// while lengths, counts and termination are still checked
				if ex.decide(isZero) {
					ex.ZeroDen--
					ex.zeroDenUsed++
					return ex.ieeeDivZero(a)
				}
			} else {
				if ex.ZeroDen > 0 && ex.spec > 0 {
					// inside a speculative arm: if the denominator can be zero here, give up
					// the merge so that the arm is re-run as a fork and the division decides
					if r, _ := ex.Sol.Check([]*Term{isZero, ex.guardTerm()}, nil); r != Unsat {
						panic(mergeAbort{"zero-denominator fork in arm"})
					}
				}
				ex.sideConds++
				ex.assume(ts.Not(isZero))
			}
		} else if tb.rat.Sign() == 0 {
			if ex.IEEE && ex.spec == 0 {
				return ex.ieeeDivZero(a)
			}
			return ex.divZero(a)
		}
		return ex.fltOf(ts.RDiv(ta, tb), bits)
	case token.EQL:
		return ex.boolOf(ts.Eq(ta, tb))
	case token.NEQ:
		return ex.boolOf(ts.Not(ts.Eq(ta, tb)))
	case token.LSS:
		return ex.boolOf(ts.RCmp("<", ta, tb))
	case token.LEQ:
		return ex.boolOf(ts.RCmp("<=", ta, tb))
	case token.GTR:
		return ex.boolOf(ts.RCmp(">", ta, tb))
	case token.GEQ:
		return ex.boolOf(ts.RCmp(">=", ta, tb))
	}
	panic(unsupported{fmt.Sprintf("real binop %v", op)})
}

// divZero: a float division whose denominator is the constant zero on this path.
// Natively the result is NaN or an infinity; in real mode it is the SMT term
// (/ a 0.0): an unspecified value that is a function of the numerator only.
func (ex *Exec) divZero(a Flt) Flt {
	ex.sideConds++
	ex.Info["div_by_constant_zero"] = ex.where()
	ts := ex.TS
	return Flt{Bits: a.Bits, T: ts.mk(SReal, "/", ex.fltTerm(a), ts.RealC(ratZero))}
}

func (ex *Exec) convert(v Value, from, to types.Type) Value {
	if tb, tu, ok := intInfo(to); ok {
		switch x := v.(type) {
		case Int:
			if x.T == nil {
				c := x.C
				if x.Uns {
					c = wrapInt(c, int(x.Bits), true)
				}
				return mkInt(c, tb, tu)
			}
			return ex.intOf(ex.TS.BVResize(x.T, tb, !x.Uns), tb, tu)
		case Flt:
			return ex.floatToInt(x, tb, tu)
		}
	}
	if fb, ok := floatBits(to); ok {
		switch x := v.(type) {
		case Int:
			if x.T == nil {
				if x.Uns && x.Bits == 64 && x.C < 0 {
					r := new(big.Rat).SetInt(new(big.Int).SetUint64(uint64(x.C)))
					return ex.fltR(r, fb)
				}
				return ex.fltR(new(big.Rat).SetInt64(x.C), fb)
			}
			return ex.intToFloat(x, fb)
		case Flt:
			if ex.FPMode && int(x.Bits) != fb {
				if x.T == nil {
					f := x.F
					if fb == 32 {
						f = float64(float32(f))
					}
					return Flt{Bits: uint8(fb), F: f}
				}
				s := SFP64
				op := "(_ to_fp 11 53) RNE"
				if fb == 32 {
					s, op = SFP32, "(_ to_fp 8 24) RNE"
				}
				return ex.fltOf(ex.TS.Op(s, op, x.T), fb)
			}
			x.Bits = uint8(fb)
			return x
		}
	}
	if b, ok := to.Underlying().(*types.Basic); ok && b.Info()&types.IsString != 0 {
		switch x := v.(type) {
		case Str:
			return x
		case Slice:
			bs := make([]byte, len(x.A))
			for i, e := range x.A {
				bs[i] = byte(ex.concInt(e, "byte"))
			}
			return Str{C: string(bs)}
		case Int:
			return Str{C: string(rune(ex.concInt(x, "rune")))}
		}
	}
	if _, ok := to.Underlying().(*types.Slice); ok {
		if s, ok := v.(Str); ok && s.T == nil {
			a := make([]Value, len(s.C))
			for i := range a {
				a[i] = mkInt(int64(s.C[i]), 8, true)
			}
			return Slice{A: a}
		}
	}
	switch v.(type) {
	case Ptr, Slice, *ChanObj, *Closure, *MapObj, Struct, Bool:
		return v
	}
	panic(unsupported{fmt.Sprintf("convert %v -> %v", from, to)})
}

func (ex *Exec) intToFloat(x Int, fb int) Value {
	ts := ex.TS
	if isIteConst(x.T, 6) {
		t := ts.mapIte(x.T, func(k *Term) *Term {
			v := k.iv
			if x.Uns {
				v = wrapInt(v, int(x.Bits), true)
			}
			if ex.FPMode {
				return ts.FPC(float64(v), fb)
			}
			return ts.RealC(new(big.Rat).SetInt64(v))
		})
		return ex.fltOf(t, fb)
	}
	if ex.FPMode {
		s, op := SFP64, "(_ to_fp 11 53) RNE"
		if fb == 32 {
			s, op = SFP32, "(_ to_fp 8 24) RNE"
		}
		if x.Uns {
			op = "(_ to_fp_unsigned" + op[7:]
		}
		return ex.fltOf(ts.Op(s, op, x.T), fb)
	}
	// real mode: signed value of the bit-vector as an Int, then to_real
	bits := int(x.Bits)
	u := ts.Op(SInt, "bv2nat", x.T)
	var iv *Term = u
	if !x.Uns {
		half := new(big.Rat).SetInt(new(big.Int).Lsh(big.NewInt(1), uint(bits-1)))
		full := new(big.Rat).SetInt(new(big.Int).Lsh(big.NewInt(1), uint(bits)))
		halfT := ts.intern("ci:"+half.Num().String(), func() *Term { return &Term{sort: SInt, isConst: true, rat: half} })
		fullT := ts.intern("ci:"+full.Num().String(), func() *Term { return &Term{sort: SInt, isConst: true, rat: full} })
		iv = ts.Ite(ts.RCmp(">=", u, halfT), ts.Op(SInt, "-", u, fullT), u)
	}
	return ex.fltOf(ts.ToReal(iv), fb)
}

func (ex *Exec) floatToInt(x Flt, tb int, tu bool) Value {
	if x.Sp != spFin {
		panic(unsupported{"conversion of " + spName(x.Sp) + " to an integer (implementation-defined)"})
	}
	if x.T == nil {
		if ex.FPMode {
			return mkInt(int64(x.F), tb, tu)
		}
		// truncation toward zero
		q := new(big.Int).Quo(x.R.Num(), x.R.Denom())
		return mkInt(q.Int64(), tb, tu)
	}
	ts := ex.TS
	if ex.FPMode {
		// Go: out-of-range conversions are implementation-defined; amd64 gives 0x8000... .
		// Encode with fp.to_sbv RTZ and leave out-of-range unspecified (SMT semantics).
		op := fmt.Sprintf("(_ fp.to_sbv %d) RTZ", tb)
		return ex.intOf(ts.Op(bvSort(tb), op, x.T), tb, tu)
	}
	// real mode: trunc(x) as Int, then int2bv
	fl := ts.ToInt(x.T)
	neg := ts.Op(SInt, "-", ts.ToInt(ts.RNeg(x.T)))
	tr := ts.Ite(ts.RCmp(">=", x.T, ts.RealC(ratZero)), fl, neg)
	return ex.intOf(ts.Op(bvSort(tb), fmt.Sprintf("(_ int2bv %d)", tb), tr), tb, tu)
}

// ---- math intrinsics on Flt ----

func (ex *Exec) fabs(a Flt) Flt {
	if a.Sp != spFin {
		if a.Sp == spNaN {
			return a
		}
		return special(a.Bits, spPosInf)
	}
	if a.T == nil {
		if ex.FPMode {
			return Flt{Bits: a.Bits, F: math.Abs(a.F)}
		}
		return Flt{Bits: a.Bits, R: new(big.Rat).Abs(a.R)}
	}
	if ex.FPMode {
		return ex.fltOf(ex.TS.Op(a.T.sort, "fp.abs", a.T), int(a.Bits))
	}
	ts := ex.TS
	return ex.fltOf(ts.Ite(ts.RCmp(">=", a.T, ts.RealC(ratZero)), a.T, ts.RNeg(a.T)), int(a.Bits))
}

func (ex *Exec) fmax(a, b Flt, isMax bool) Flt {
	op := token.GTR
	if !isMax {
		op = token.LSS
	}
	if a.Sp == spNaN || b.Sp == spNaN {
		return special(a.Bits, spNaN) // math.Max / math.Min propagate NaN
	}
	c := ex.fltBinop(op, a, b).(Bool)
	if c.T == nil {
		if c.C {
			return a
		}
		return b
	}
	v, _ := ex.mergeVal(c.T, a, b)
	return v.(Flt)
}

func (ex *Exec) fsqrt(a Flt) Flt {
	if a.Sp != spFin {
		if a.Sp == spPosInf {
			return a
		}
		return special(a.Bits, spNaN)
	}
	if ex.FPMode {
		if a.T == nil {
			return Flt{Bits: a.Bits, F: math.Sqrt(a.F)}
		}
		return ex.fltOf(ex.TS.Op(a.T.sort, "fp.sqrt RNE", a.T), int(a.Bits))
	}
	ts := ex.TS
	if a.T == nil {
		if a.R.Sign() < 0 {
			ex.Info["sqrt_negative"] = ex.where()
			ex.assume(ts.BoolC(false))
			return Flt{Bits: a.Bits, R: new(big.Rat)}
		}
		n, d := new(big.Int).Sqrt(a.R.Num()), new(big.Int).Sqrt(a.R.Denom())
		if new(big.Int).Mul(n, n).Cmp(a.R.Num()) == 0 && new(big.Int).Mul(d, d).Cmp(a.R.Denom()) == 0 {
			return Flt{Bits: a.Bits, R: new(big.Rat).SetFrac(n, d)}
		}
		// concrete irrational root (period arithmetic such as round(sqrt(P))): the
		// float64 value the real code computes
		f, _ := a.R.Float64()
		ex.Info["sqrt_of_constant"] = "float64 approximation"
		return ex.fltC(math.Sqrt(f), int(a.Bits))
	}
	at := ex.fltTerm(a)
	// one sqrt variable per argument term (function consistency)
	key := fmt.Sprintf("sqrt!%d", at.id)
	s := ts.Var(key, SReal)
	if !ex.nondetSeen[key] {
		ex.nondetSeen[key] = true
		ex.sideConds++
		// side condition: argument >= 0 (outside the claim otherwise)
		ex.assume(ts.RCmp(">=", at, ts.RealC(ratZero)))
		ex.assume(ts.And(ts.RCmp(">=", s, ts.RealC(ratZero)), ts.Eq(ts.RMul(s, s), at)))
	}
	return Flt{Bits: a.Bits, T: s}
}

func (ex *Exec) fpow(a, b Flt) Flt {
	if ex.FPMode && a.T == nil && b.T == nil {
		return Flt{Bits: a.Bits, F: math.Pow(a.F, b.F)}
	}
	if b.T != nil {
		panic(unsupported{"math.Pow with symbolic exponent"})
	}
	var k int64
	if ex.FPMode {
		if b.F != math.Trunc(b.F) {
			panic(unsupported{"math.Pow with non-integer exponent"})
		}
		k = int64(b.F)
	} else {
		if !b.R.IsInt() {
			panic(unsupported{"math.Pow with non-integer exponent"})
		}
		k = b.R.Num().Int64()
	}
	if k < -64 || k > 64 {
		panic(unsupported{"math.Pow exponent too large"})
	}
	one := ex.fltC(1, int(a.Bits))
	r := one
	n := k
	if n < 0 {
		n = -n
	}
	for i := int64(0); i < n; i++ {
		r = ex.fltBinop(token.MUL, r, a).(Flt)
	}
	if k < 0 {
		r = ex.fltBinop(token.QUO, one, r).(Flt)
	}
	return r
}

// fround: math.Round (half away from zero); floor when floor==true.
func (ex *Exec) fround(a Flt, floor bool) Flt {
	if a.Sp != spFin {
		return a
	}
	if a.T == nil {
		if ex.FPMode {
			if floor {
				return Flt{Bits: a.Bits, F: math.Floor(a.F)}
			}
			return Flt{Bits: a.Bits, F: math.Round(a.F)}
		}
		fl := func(r *big.Rat) *big.Int { return new(big.Int).Div(r.Num(), r.Denom()) }
		if floor {
			return Flt{Bits: a.Bits, R: new(big.Rat).SetInt(fl(a.R))}
		}
		half := big.NewRat(1, 2)
		if a.R.Sign() >= 0 {
			return Flt{Bits: a.Bits, R: new(big.Rat).SetInt(fl(new(big.Rat).Add(a.R, half)))}
		}
		n := fl(new(big.Rat).Add(new(big.Rat).Neg(a.R), half))
		return Flt{Bits: a.Bits, R: new(big.Rat).SetInt(n.Neg(n))}
	}
	ts := ex.TS
	if ex.FPMode {
		mode := "RNA"
		if floor {
			mode = "RTN"
		}
		return ex.fltOf(ts.Op(a.T.sort, "fp.roundToIntegral "+mode, a.T), int(a.Bits))
	}
	if floor {
		return ex.fltOf(ts.ToReal(ts.ToInt(a.T)), int(a.Bits))
	}
	half := ts.RealC(big.NewRat(1, 2))
	pos := ts.ToReal(ts.ToInt(ts.RAdd(a.T, half)))
	neg := ts.RNeg(ts.ToReal(ts.ToInt(ts.RAdd(ts.RNeg(a.T), half))))
	return ex.fltOf(ts.Ite(ts.RCmp(">=", a.T, ts.RealC(ratZero)), pos, neg), int(a.Bits))
}
