package sym

import (
	"fmt"
	"go/types"

	"golang.org/x/tools/go/ssa"
)

// Event is one synchronisation-relevant operation of the executed run.
type Event struct {
	id   int
	g    int
	kind string
	ch   *ChanObj
	cell *Value
	seq  int
	po   *Event // program-order predecessor (same goroutine)
}

func (ex *Exec) newEvent(g *G, kind string, ch *ChanObj, cell *Value) *Event {
	e := &Event{id: len(ex.events), g: g.id, kind: kind, ch: ch, cell: cell, po: g.lastEv}
	ex.events = append(ex.events, e)
	if g.lastEv != nil {
		ex.edges = append(ex.edges, [2]int{g.lastEv.id, e.id})
	}
	g.lastEv = e
	if g.seg != nil {
		g.seg.next = e
	}
	g.seg = &segment{g: g.id, prev: e}
	return e
}

func (ex *Exec) addEdge(a, b *Event) {
	if a == nil || b == nil {
		return
	}
	ex.edges = append(ex.edges, [2]int{a.id, b.id})
}

// memEvent logs loads/stores when memory tracking is on: the access is
// attributed to the goroutine's current segment (between two sync events).
func (ex *Exec) memEvent(g *G, p *Value, write bool) {
	if !ex.trackMem || ex.inInit || g.seg == nil {
		return
	}
	accs := ex.memAcc[p]
	for i := len(accs) - 1; i >= 0 && i >= len(accs)-4; i-- {
		if accs[i].seg == g.seg && accs[i].write == write {
			return
		}
	}
	if accs == nil {
		ex.memOrder = append(ex.memOrder, p)
	}
	ex.memAcc[p] = append(accs, memAcc{seg: g.seg, write: write, where: ex.whereShort(g)})
}

func (ex *Exec) mapEvent(g *G, m *MapObj, write bool) {
	if !ex.trackMem {
		return
	}
	ex.memEvent(g, ex.mapCell(m), write)
}

func (ex *Exec) mapCell(m *MapObj) *Value {
	if ex.mapCellTab == nil {
		ex.mapCellTab = map[*MapObj]*Value{}
	}
	if p, ok := ex.mapCellTab[m]; ok {
		return p
	}
	p := new(Value)
	ex.mapCellTab[m] = p
	return p
}

func (ex *Exec) block(g *G, ch *ChanObj, what string) {
	if ex.spec > 0 {
		panic(mergeAbort{"channel op in arm"})
	}
	g.status = gBlocked
	g.waitCh = ch
	g.waitWhat = what
}

func (ex *Exec) wake(g *G) {
	if ex.Sched == 2 {
		ex.yield = true
	}
	g.status = gRunnable
	g.waitCh = nil
	g.waitWhat = ""
}

// send executes `ch <- v`.
func (ex *Exec) send(g *G, f *Frame, x *ssa.Send) {
	if ex.spec > 0 {
		panic(mergeAbort{"send in arm"})
	}
	ch := ex.reg(f, x.Chan).(*ChanObj)
	v := copyVal(ex.reg(f, x.X))
	if ch == nil {
		ex.block(g, nil, "send on nil channel")
		return
	}
	if ch.closed {
		panic(goPanic{"send on closed channel"})
	}
	ev := ex.newEvent(g, "send", ch, nil)
	ev.seq = ch.nSend
	ch.nSend++
	ch.sendEvs = append(ch.sendEvs, ev)
	// buffered: k-th send happens after completion of (k-cap)-th receive
	if ch.cap > 0 && ev.seq-ch.cap >= 0 && ev.seq-ch.cap < len(ch.recvEvs) {
		ex.addEdge(ch.recvEvs[ev.seq-ch.cap], ev)
	}
	if len(ch.recvq) > 0 {
		w := ch.recvq[0]
		ch.recvq = ch.recvq[1:]
		ex.deliver(w, v, true, ev, ch)
		f.pc++
		return
	}
	if len(ch.buf) < ch.cap {
		ch.buf = append(ch.buf, v)
		ch.bufEv = append(ch.bufEv, ev)
		f.pc++
		return
	}
	ch.sendq = append(ch.sendq, &waiter{g: g, val: v, ev: ev})
	ex.block(g, ch, fmt.Sprintf("send on chan#%d", ch.id))
}

// deliver completes a parked receive.
func (ex *Exec) deliver(w *waiter, v Value, ok bool, sendEv *Event, ch *ChanObj) {
	rf := w.g.frames[len(w.g.frames)-1]
	rx := w.instr.(*ssa.UnOp)
	if w.commaOk {
		ex.setReg(rf, rx, Tuple{v, Bool{C: ok}})
	} else {
		ex.setReg(rf, rx, v)
	}
	rf.pc++
	// the receive event was created when the receiver parked
	if sendEv != nil && ch.cap == 0 {
		ex.rdv = append(ex.rdv, [2]int{sendEv.id, w.ev.id}) // rendezvous: one instant
	} else {
		ex.addEdge(sendEv, w.ev)
	}
	ex.wake(w.g)
}

// recv executes `<-ch`.
func (ex *Exec) recv(g *G, f *Frame, x *ssa.UnOp) {
	if ex.spec > 0 {
		panic(mergeAbort{"receive in arm"})
	}
	ch := ex.reg(f, x.X).(*ChanObj)
	if ch == nil {
		ex.block(g, nil, "receive on nil channel")
		return
	}
	set := func(v Value, ok bool) {
		if x.CommaOk {
			ex.setReg(f, x, Tuple{v, Bool{C: ok}})
		} else {
			ex.setReg(f, x, v)
		}
		f.pc++
	}
	if len(ch.buf) > 0 {
		ev := ex.newEvent(g, "recv", ch, nil)
		ev.seq = ch.nRecv
		ch.nRecv++
		ch.recvEvs = append(ch.recvEvs, ev)
		v := ch.buf[0]
		sev := ch.bufEv[0]
		ch.buf = ch.buf[1:]
		ch.bufEv = ch.bufEv[1:]
		ex.addEdge(sev, ev)
		// a parked sender can now move into the buffer
		if len(ch.sendq) > 0 {
			w := ch.sendq[0]
			ch.sendq = ch.sendq[1:]
			ch.buf = append(ch.buf, w.val)
			ch.bufEv = append(ch.bufEv, w.ev)
			ex.addEdge(ev, w.ev)
			sf := w.g.frames[len(w.g.frames)-1]
			sf.pc++
			ex.wake(w.g)
		}
		set(v, true)
		return
	}
	if len(ch.sendq) > 0 { // unbuffered rendezvous with a parked sender
		ev := ex.newEvent(g, "recv", ch, nil)
		ev.seq = ch.nRecv
		ch.nRecv++
		ch.recvEvs = append(ch.recvEvs, ev)
		w := ch.sendq[0]
		ch.sendq = ch.sendq[1:]
		ex.rdv = append(ex.rdv, [2]int{w.ev.id, ev.id})
		sf := w.g.frames[len(w.g.frames)-1]
		sf.pc++
		ex.wake(w.g)
		set(w.val, true)
		return
	}
	if ch.closed {
		ev := ex.newEvent(g, "recvclosed", ch, nil)
		ex.addEdge(ch.closeEv, ev)
		set(ex.zero(ch.elem), false)
		return
	}
	ev := ex.newEvent(g, "recv", ch, nil)
	ev.seq = ch.nRecv
	ch.nRecv++
	ch.recvEvs = append(ch.recvEvs, ev)
	ch.recvq = append(ch.recvq, &waiter{g: g, instr: x, commaOk: x.CommaOk, ev: ev})
	ex.block(g, ch, fmt.Sprintf("receive on chan#%d", ch.id))
}

func (ex *Exec) closeChan(g *G, ch *ChanObj) {
	if ex.spec > 0 {
		panic(mergeAbort{"close in arm"})
	}
	if ch == nil {
		panic(goPanic{"close of nil channel"})
	}
	if ch.closed {
		panic(goPanic{"close of closed channel"})
	}
	ev := ex.newEvent(g, "close", ch, nil)
	ch.closed = true
	ch.closeEv = ev
	if len(ch.sendq) > 0 {
		panic(goPanic{"send on closed channel (sender parked while channel closed)"})
	}
	for _, w := range ch.recvq {
		// parked receivers observe the close: their event becomes recvclosed
		w.ev.kind = "recvclosed"
		ch.nRecv--
		// remove from recvEvs
		for i, e := range ch.recvEvs {
			if e == w.ev {
				ch.recvEvs = append(ch.recvEvs[:i], ch.recvEvs[i+1:]...)
				break
			}
		}
		rf := w.g.frames[len(w.g.frames)-1]
		rx := w.instr.(*ssa.UnOp)
		if w.commaOk {
			ex.setReg(rf, rx, Tuple{ex.zero(ch.elem), Bool{C: false}})
		} else {
			ex.setReg(rf, rx, ex.zero(ch.elem))
		}
		rf.pc++
		ex.addEdge(ev, w.ev)
		ex.wake(w.g)
	}
	ch.recvq = nil
}

// selectOp executes a select statement in a restricted form: the FIRST case that can
// proceed right now is taken (Go picks among the ready cases pseudo-randomly: only
// this one choice is explored); if none can, a select with a default case takes it,
// and a blocking select is reported as unsupported (a goroutine cannot be parked on
// several channels).
func (ex *Exec) selectOp(g *G, f *Frame, x *ssa.Select) {
	if ex.spec > 0 {
		panic(mergeAbort{"select in arm"})
	}
	res := x.Type().(*types.Tuple)
	out := make(Tuple, res.Len())
	for i := range out {
		out[i] = ex.zero(res.At(i).Type())
	}
	// slot of the received value of state i in the result tuple
	slot := map[int]int{}
	k := 2
	for i, st := range x.States {
		if st.Dir == types.RecvOnly {
			slot[i] = k
			k++
		}
	}
	chosen := -1
	for i, st := range x.States {
		ch, _ := ex.reg(f, st.Chan).(*ChanObj)
		if ch == nil {
			continue // a nil channel is never ready
		}
		if st.Dir == types.RecvOnly {
			if len(ch.buf) > 0 || len(ch.sendq) > 0 || ch.closed {
				chosen = i
			}
		} else if ch.closed || len(ch.recvq) > 0 || len(ch.buf) < ch.cap {
			chosen = i
		}
		if chosen >= 0 {
			break
		}
	}
	if chosen < 0 {
		if x.Blocking {
			panic(unsupported{"blocking select with no ready case"})
		}
		out[0] = mkInt(-1, 64, false)
		ex.setReg(f, x, out)
		f.pc++
		return
	}
	ex.Info["select"] = "first ready case taken"
	st := x.States[chosen]
	ch := ex.reg(f, st.Chan).(*ChanObj)
	out[0] = mkInt(int64(chosen), 64, false)
	if st.Dir == types.RecvOnly {
		switch {
		case len(ch.buf) > 0:
			ev := ex.newEvent(g, "recv", ch, nil)
			ev.seq = ch.nRecv
			ch.nRecv++
			ch.recvEvs = append(ch.recvEvs, ev)
			v := ch.buf[0]
			sev := ch.bufEv[0]
			ch.buf = ch.buf[1:]
			ch.bufEv = ch.bufEv[1:]
			ex.addEdge(sev, ev)
			if len(ch.sendq) > 0 {
				w := ch.sendq[0]
				ch.sendq = ch.sendq[1:]
				ch.buf = append(ch.buf, w.val)
				ch.bufEv = append(ch.bufEv, w.ev)
				ex.addEdge(ev, w.ev)
				w.g.frames[len(w.g.frames)-1].pc++
				ex.wake(w.g)
			}
			out[1], out[slot[chosen]] = Bool{C: true}, v
		case len(ch.sendq) > 0:
			ev := ex.newEvent(g, "recv", ch, nil)
			ev.seq = ch.nRecv
			ch.nRecv++
			ch.recvEvs = append(ch.recvEvs, ev)
			w := ch.sendq[0]
			ch.sendq = ch.sendq[1:]
			ex.rdv = append(ex.rdv, [2]int{w.ev.id, ev.id})
			w.g.frames[len(w.g.frames)-1].pc++
			ex.wake(w.g)
			out[1], out[slot[chosen]] = Bool{C: true}, w.val
		default: // closed
			ev := ex.newEvent(g, "recvclosed", ch, nil)
			ex.addEdge(ch.closeEv, ev)
			out[1] = Bool{C: false}
		}
	} else {
		if ch.closed {
			panic(goPanic{"send on closed channel"})
		}
		v := copyVal(ex.reg(f, st.Send))
		ev := ex.newEvent(g, "send", ch, nil)
		ev.seq = ch.nSend
		ch.nSend++
		ch.sendEvs = append(ch.sendEvs, ev)
		if ch.cap > 0 && ev.seq-ch.cap >= 0 && ev.seq-ch.cap < len(ch.recvEvs) {
			ex.addEdge(ch.recvEvs[ev.seq-ch.cap], ev)
		}
		if len(ch.recvq) > 0 {
			w := ch.recvq[0]
			ch.recvq = ch.recvq[1:]
			ex.deliver(w, v, true, ev, ch)
		} else {
			ch.buf = append(ch.buf, v)
			ch.bufEv = append(ch.bufEv, ev)
		}
	}
	ex.setReg(f, x, out)
	f.pc++
}
