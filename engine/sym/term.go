// Package sym is a symbolic executor for go/ssa that emits SMT-LIB2.
package sym

import (
	"fmt"
	"math"
	"math/big"
	"strconv"
	"strings"
)

// Sort of an SMT term.
type Sort uint8

const (
	SBool Sort = iota
	SReal
	SInt // mathematical integer (clocks, to_int results)
	SBV8
	SBV16
	SBV32
	SBV64
	SFP32
	SFP64
	SStr
)

func (s Sort) String() string {
	switch s {
	case SBool:
		return "Bool"
	case SReal:
		return "Real"
	case SInt:
		return "Int"
	case SBV8:
		return "(_ BitVec 8)"
	case SBV16:
		return "(_ BitVec 16)"
	case SBV32:
		return "(_ BitVec 32)"
	case SBV64:
		return "(_ BitVec 64)"
	case SFP32:
		return "(_ FloatingPoint 8 24)"
	case SFP64:
		return "(_ FloatingPoint 11 53)"
	case SStr:
		return "String"
	}
	return "?"
}

func bvSort(bits int) Sort {
	switch bits {
	case 8:
		return SBV8
	case 16:
		return SBV16
	case 32:
		return SBV32
	}
	return SBV64
}

func (s Sort) bits() int {
	switch s {
	case SBV8:
		return 8
	case SBV16:
		return 16
	case SBV32:
		return 32
	case SBV64:
		return 64
	}
	return 0
}

// Term is a hash-consed SMT term (per TermStore).
type Term struct {
	id   int
	sort Sort
	op   string // "" for leaves
	args []*Term
	name string // variable name for leaf variables
	// constants
	isConst bool
	rat     *big.Rat // SReal, SInt
	iv      int64    // SBV* (sign-extended value)
	bv      bool     // SBool
	fv      float64  // SFP*
	sv      string   // SStr
	// poison: the term contains a division by the constant zero (NaN / Inf natively);
	// assertions over such terms are exempt (zero-denominator positions)
	poison bool
}

// TermStore hash-conses terms for one run.
type TermStore struct {
	tab   map[string]*Term
	n     int
	Vars  []*Term // declared variables in creation order
	byVar map[string]*Term
	// fp mode: variables asserted finite, and whether the solver-discharged
	// lemma "(a-b) cmp 0 <=> a cmp b for finite a,b" may be used as a rewrite
	Finite     map[*Term]bool
	FPSubLemma bool
	LemmaUses  int
}

func NewTermStore() *TermStore {
	return &TermStore{tab: map[string]*Term{}, byVar: map[string]*Term{}, Finite: map[*Term]bool{}}
}

func (ts *TermStore) intern(key string, mk func() *Term) *Term {
	if t, ok := ts.tab[key]; ok {
		return t
	}
	t := mk()
	ts.n++
	t.id = ts.n
	ts.tab[key] = t
	return t
}

// Var returns the variable of that name (declared on first use).
func (ts *TermStore) Var(name string, s Sort) *Term {
	if t, ok := ts.byVar[name]; ok {
		if t.sort != s {
			panic(fmt.Sprintf("variable %s redeclared with another sort", name))
		}
		return t
	}
	t := ts.intern("v:"+name, func() *Term { return &Term{sort: s, name: name} })
	ts.byVar[name] = t
	ts.Vars = append(ts.Vars, t)
	return t
}

func (ts *TermStore) BoolC(b bool) *Term {
	k := "cb:f"
	if b {
		k = "cb:t"
	}
	return ts.intern(k, func() *Term { return &Term{sort: SBool, isConst: true, bv: b} })
}

func (ts *TermStore) RealC(r *big.Rat) *Term {
	return ts.intern("cr:"+r.String(), func() *Term { return &Term{sort: SReal, isConst: true, rat: new(big.Rat).Set(r)} })
}

func (ts *TermStore) IntC(v int64) *Term {
	return ts.intern("ci:"+strconv.FormatInt(v, 10), func() *Term {
		return &Term{sort: SInt, isConst: true, rat: new(big.Rat).SetInt64(v)}
	})
}

func (ts *TermStore) BVC(v int64, bits int) *Term {
	v = wrapInt(v, bits, false)
	return ts.intern(fmt.Sprintf("cv%d:%d", bits, v), func() *Term {
		return &Term{sort: bvSort(bits), isConst: true, iv: v}
	})
}

func (ts *TermStore) FPC(f float64, bits int) *Term {
	s := SFP64
	if bits == 32 {
		s = SFP32
	}
	return ts.intern(fmt.Sprintf("cf%d:%x", bits, math.Float64bits(f)), func() *Term {
		return &Term{sort: s, isConst: true, fv: f}
	})
}

func (ts *TermStore) StrC(v string) *Term {
	return ts.intern("cs:"+v, func() *Term { return &Term{sort: SStr, isConst: true, sv: v} })
}

func (ts *TermStore) mk(sort Sort, op string, args ...*Term) *Term {
	var sb strings.Builder
	sb.WriteString(op)
	sb.WriteByte('#')
	sb.WriteString(strconv.Itoa(int(sort)))
	for _, a := range args {
		sb.WriteByte(',')
		sb.WriteString(strconv.Itoa(a.id))
	}
	return ts.intern(sb.String(), func() *Term {
		t := &Term{sort: sort, op: op, args: append([]*Term(nil), args...)}
		for _, a := range args {
			if a.poison {
				t.poison = true
			}
		}
		if op == "/" && len(args) == 2 && args[1].isConst && args[1].rat != nil && args[1].rat.Sign() == 0 {
			t.poison = true
		}
		return t
	})
}

// ---- boolean constructors ----

func (ts *TermStore) Not(a *Term) *Term {
	if a.isConst {
		return ts.BoolC(!a.bv)
	}
	if a.op == "not" {
		return a.args[0]
	}
	return ts.mk(SBool, "not", a)
}

func (ts *TermStore) And(a, b *Term) *Term {
	if a.isConst {
		if a.bv {
			return b
		}
		return a
	}
	if b.isConst {
		if b.bv {
			return a
		}
		return b
	}
	if a == b {
		return a
	}
	return ts.mk(SBool, "and", a, b)
}

func (ts *TermStore) Or(a, b *Term) *Term {
	if a.isConst {
		if a.bv {
			return a
		}
		return b
	}
	if b.isConst {
		if b.bv {
			return b
		}
		return a
	}
	if a == b {
		return a
	}
	return ts.mk(SBool, "or", a, b)
}

func (ts *TermStore) Implies(a, b *Term) *Term { return ts.Or(ts.Not(a), b) }

func (ts *TermStore) Ite(c, a, b *Term) *Term {
	if c.isConst {
		if c.bv {
			return a
		}
		return b
	}
	if a == b {
		return a
	}
	if a.sort != b.sort {
		panic(fmt.Sprintf("ite sorts differ: %v %v", a.sort, b.sort))
	}
	if a.sort == SBool {
		if a.isConst && b.isConst {
			if a.bv { // ite(c, true, false)
				return c
			}
			return ts.Not(c)
		}
		if a.isConst {
			if a.bv {
				return ts.Or(c, b)
			}
			return ts.And(ts.Not(c), b)
		}
		if b.isConst {
			if b.bv {
				return ts.Or(ts.Not(c), a)
			}
			return ts.And(c, a)
		}
	}
	if c.op == "not" {
		return ts.mk(a.sort, "ite", c.args[0], b, a)
	}
	return ts.mk(a.sort, "ite", c, a, b)
}

// isIteConst reports whether t is an ite tree with only constant leaves (depth-limited).
func isIteConst(t *Term, depth int) bool {
	if t.isConst {
		return true
	}
	if t.op != "ite" || depth == 0 {
		return false
	}
	return isIteConst(t.args[1], depth-1) && isIteConst(t.args[2], depth-1)
}

// mapIte applies f to the constant leaves of an ite tree.
func (ts *TermStore) mapIte(t *Term, f func(*Term) *Term) *Term {
	if t.isConst {
		return f(t)
	}
	return ts.Ite(t.args[0], ts.mapIte(t.args[1], f), ts.mapIte(t.args[2], f))
}

// distribute tries to push a binary op over ite-of-constants operands.
func (ts *TermStore) distribute(a, b *Term, f func(x, y *Term) *Term) (*Term, bool) {
	if a.isConst && !b.isConst && isIteConst(b, 4) {
		return ts.mapIte(b, func(y *Term) *Term { return f(a, y) }), true
	}
	if b.isConst && !a.isConst && isIteConst(a, 4) {
		return ts.mapIte(a, func(x *Term) *Term { return f(x, b) }), true
	}
	return nil, false
}

// Eq builds equality for any sort (fp uses fp.eq).
func (ts *TermStore) Eq(a, b *Term) *Term {
	if a == b && a.sort != SFP32 && a.sort != SFP64 {
		return ts.BoolC(true)
	}
	if a.isConst && b.isConst {
		switch a.sort {
		case SBool:
			return ts.BoolC(a.bv == b.bv)
		case SReal, SInt:
			return ts.BoolC(a.rat.Cmp(b.rat) == 0)
		case SBV8, SBV16, SBV32, SBV64:
			return ts.BoolC(a.iv == b.iv)
		case SFP32, SFP64:
			return ts.BoolC(a.fv == b.fv)
		case SStr:
			return ts.BoolC(a.sv == b.sv)
		}
	}
	if r, ok := ts.distribute(a, b, ts.Eq); ok {
		return r
	}
	switch a.sort {
	case SFP32, SFP64:
		return ts.mk(SBool, "fp.eq", a, b)
	case SBool:
		if a.isConst {
			if a.bv {
				return b
			}
			return ts.Not(b)
		}
		if b.isConst {
			if b.bv {
				return a
			}
			return ts.Not(a)
		}
	}
	if a.id > b.id {
		a, b = b, a
	}
	return ts.mk(SBool, "=", a, b)
}

// ---- real arithmetic ----

var ratZero = new(big.Rat)
var ratOne = big.NewRat(1, 1)

func (ts *TermStore) RAdd(a, b *Term) *Term {
	if a.isConst && b.isConst {
		return ts.RealC(new(big.Rat).Add(a.rat, b.rat))
	}
	if a.isConst && a.rat.Sign() == 0 {
		return b
	}
	if b.isConst && b.rat.Sign() == 0 {
		return a
	}
	return ts.mk(a.sort, "+", a, b)
}

func (ts *TermStore) RSub(a, b *Term) *Term {
	if a.isConst && b.isConst {
		return ts.RealC(new(big.Rat).Sub(a.rat, b.rat))
	}
	if b.isConst && b.rat.Sign() == 0 {
		return a
	}
	if a == b {
		return ts.RealC(ratZero)
	}
	return ts.mk(a.sort, "-", a, b)
}

func (ts *TermStore) RNeg(a *Term) *Term {
	if a.isConst {
		return ts.RealC(new(big.Rat).Neg(a.rat))
	}
	return ts.mk(a.sort, "-", a)
}

func (ts *TermStore) RMul(a, b *Term) *Term {
	if a.isConst && b.isConst {
		return ts.RealC(new(big.Rat).Mul(a.rat, b.rat))
	}
	if a.isConst {
		if a.rat.Sign() == 0 {
			return a
		}
		if a.rat.Cmp(ratOne) == 0 {
			return b
		}
	}
	if b.isConst {
		if b.rat.Sign() == 0 {
			return b
		}
		if b.rat.Cmp(ratOne) == 0 {
			return a
		}
	}
	return ts.mk(SReal, "*", a, b)
}

func (ts *TermStore) RDiv(a, b *Term) *Term {
	if b.isConst && b.rat.Sign() != 0 {
		if a.isConst {
			return ts.RealC(new(big.Rat).Quo(a.rat, b.rat))
		}
		if b.rat.Cmp(ratOne) == 0 {
			return a
		}
		// multiply by the reciprocal: keeps the term linear
		return ts.mk(SReal, "*", ts.RealC(new(big.Rat).Inv(b.rat)), a)
	}
	return ts.mk(SReal, "/", a, b)
}

// RCmp builds a comparison on Real/Int terms: op in < <= > >=.
func (ts *TermStore) RCmp(op string, a, b *Term) *Term {
	if a.isConst && b.isConst {
		c := a.rat.Cmp(b.rat)
		switch op {
		case "<":
			return ts.BoolC(c < 0)
		case "<=":
			return ts.BoolC(c <= 0)
		case ">":
			return ts.BoolC(c > 0)
		case ">=":
			return ts.BoolC(c >= 0)
		}
	}
	if a == b {
		return ts.BoolC(op == "<=" || op == ">=")
	}
	if r, ok := ts.distribute(a, b, func(x, y *Term) *Term { return ts.RCmp(op, x, y) }); ok {
		return r
	}
	return ts.mk(SBool, op, a, b)
}

func (ts *TermStore) ToReal(a *Term) *Term {
	if a.isConst {
		return ts.RealC(a.rat)
	}
	return ts.mk(SReal, "to_real", a)
}

func (ts *TermStore) ToInt(a *Term) *Term { // floor
	if a.isConst {
		f := new(big.Int).Div(a.rat.Num(), a.rat.Denom()) // Euclidean; denom>0 => floor
		return ts.intern("ci:"+f.String(), func() *Term {
			return &Term{sort: SInt, isConst: true, rat: new(big.Rat).SetInt(f)}
		})
	}
	return ts.mk(SInt, "to_int", a)
}

// ---- bit-vectors ----

func wrapInt(v int64, bits int, unsigned bool) int64 {
	switch bits {
	case 8:
		if unsigned {
			return int64(uint8(v))
		}
		return int64(int8(v))
	case 16:
		if unsigned {
			return int64(uint16(v))
		}
		return int64(int16(v))
	case 32:
		if unsigned {
			return int64(uint32(v))
		}
		return int64(int32(v))
	}
	return v
}

func (ts *TermStore) BVBin(op string, a, b *Term) *Term {
	bits := a.sort.bits()
	if a.isConst && b.isConst {
		x, y := a.iv, b.iv
		var r int64
		ok := true
		switch op {
		case "bvadd":
			r = x + y
		case "bvsub":
			r = x - y
		case "bvmul":
			r = x * y
		case "bvand":
			r = x & y
		case "bvor":
			r = x | y
		case "bvxor":
			r = x ^ y
		case "bvsdiv":
			if y == 0 {
				ok = false
			} else {
				r = x / y
			}
		case "bvsrem":
			if y == 0 {
				ok = false
			} else {
				r = x % y
			}
		default:
			ok = false
		}
		if ok {
			return ts.BVC(r, bits)
		}
	}
	if r, ok := ts.distribute(a, b, func(x, y *Term) *Term { return ts.BVBin(op, x, y) }); ok {
		return r
	}
	return ts.mk(a.sort, op, a, b)
}

func (ts *TermStore) BVNeg(a *Term) *Term {
	if a.isConst {
		return ts.BVC(-a.iv, a.sort.bits())
	}
	return ts.mk(a.sort, "bvneg", a)
}

// BVCmp: op in bvslt bvsle bvsgt bvsge bvult bvule bvugt bvuge.
func (ts *TermStore) BVCmp(op string, a, b *Term) *Term {
	if a.isConst && b.isConst {
		x, y := a.iv, b.iv
		ux, uy := uint64(x), uint64(y)
		if bits := a.sort.bits(); bits < 64 {
			m := uint64(1)<<uint(bits) - 1
			ux, uy = ux&m, uy&m
		}
		switch op {
		case "bvslt":
			return ts.BoolC(x < y)
		case "bvsle":
			return ts.BoolC(x <= y)
		case "bvsgt":
			return ts.BoolC(x > y)
		case "bvsge":
			return ts.BoolC(x >= y)
		case "bvult":
			return ts.BoolC(ux < uy)
		case "bvule":
			return ts.BoolC(ux <= uy)
		case "bvugt":
			return ts.BoolC(ux > uy)
		case "bvuge":
			return ts.BoolC(ux >= uy)
		}
	}
	if r, ok := ts.distribute(a, b, func(x, y *Term) *Term { return ts.BVCmp(op, x, y) }); ok {
		return r
	}
	return ts.mk(SBool, op, a, b)
}

// BVResize sign- or zero-extends / truncates.
func (ts *TermStore) BVResize(a *Term, to int, signed bool) *Term {
	from := a.sort.bits()
	if from == to {
		return a
	}
	if a.isConst {
		v := a.iv
		if !signed {
			v = wrapInt(v, from, true)
		}
		return ts.BVC(v, to)
	}
	if isIteConst(a, 4) {
		return ts.mapIte(a, func(x *Term) *Term { return ts.BVResize(x, to, signed) })
	}
	if to < from {
		return ts.mk(bvSort(to), fmt.Sprintf("(_ extract %d 0)", to-1), a)
	}
	if signed {
		return ts.mk(bvSort(to), fmt.Sprintf("(_ sign_extend %d)", to-from), a)
	}
	return ts.mk(bvSort(to), fmt.Sprintf("(_ zero_extend %d)", to-from), a)
}

// ---- floating point (fp mode) ----

func (ts *TermStore) FPBin(op string, a, b *Term) *Term {
	if a.isConst && b.isConst {
		x, y := a.fv, b.fv
		bits := 64
		if a.sort == SFP32 {
			bits = 32
		}
		var r float64
		switch op {
		case "fp.add":
			r = x + y
		case "fp.sub":
			r = x - y
		case "fp.mul":
			r = x * y
		case "fp.div":
			r = x / y
		}
		if bits == 32 {
			switch op {
			case "fp.add":
				r = float64(float32(x) + float32(y))
			case "fp.sub":
				r = float64(float32(x) - float32(y))
			case "fp.mul":
				r = float64(float32(x) * float32(y))
			case "fp.div":
				r = float64(float32(x) / float32(y))
			}
		}
		return ts.FPC(r, bits)
	}
	return ts.mk(a.sort, op+" RNE", a, b)
}

func (ts *TermStore) FPNeg(a *Term) *Term {
	if a.isConst {
		b := 64
		if a.sort == SFP32 {
			b = 32
		}
		return ts.FPC(-a.fv, b)
	}
	return ts.mk(a.sort, "fp.neg", a)
}

// FPCmp: op in fp.lt fp.leq fp.gt fp.geq fp.eq.
func (ts *TermStore) FPCmp(op string, a, b *Term) *Term {
	if a.isConst && b.isConst {
		x, y := a.fv, b.fv
		switch op {
		case "fp.lt":
			return ts.BoolC(x < y)
		case "fp.leq":
			return ts.BoolC(x <= y)
		case "fp.gt":
			return ts.BoolC(x > y)
		case "fp.geq":
			return ts.BoolC(x >= y)
		case "fp.eq":
			return ts.BoolC(x == y)
		}
	}
	if ts.FPSubLemma && a.op == "fp.sub RNE" && b.isConst && b.fv == 0 && (op == "fp.eq" || op == "fp.lt" || op == "fp.gt") {
		x, y := a.args[0], a.args[1]
		fin := func(t *Term) bool { return ts.Finite[t] || (t.isConst && !math.IsNaN(t.fv) && !math.IsInf(t.fv, 0)) }
		if fin(x) && fin(y) {
			ts.LemmaUses++
			return ts.FPCmp(op, x, y)
		}
	}
	return ts.mk(SBool, op, a, b)
}

func (ts *TermStore) Op(sort Sort, op string, args ...*Term) *Term { return ts.mk(sort, op, args...) }

// ---- SMT text ----

func ratLit(r *big.Rat) string {
	neg := r.Sign() < 0
	a := new(big.Rat).Abs(r)
	var s string
	if a.IsInt() {
		s = a.Num().String() + ".0"
	} else {
		s = "(/ " + a.Num().String() + ".0 " + a.Denom().String() + ".0)"
	}
	if neg {
		return "(- " + s + ")"
	}
	return s
}

func intLit(r *big.Rat) string {
	if r.Sign() < 0 {
		return "(- " + new(big.Int).Neg(r.Num()).String() + ")"
	}
	return r.Num().String()
}

func (t *Term) lit() string {
	switch t.sort {
	case SBool:
		if t.bv {
			return "true"
		}
		return "false"
	case SReal:
		return ratLit(t.rat)
	case SInt:
		return intLit(t.rat)
	case SBV8, SBV16, SBV32, SBV64:
		bits := t.sort.bits()
		u := uint64(t.iv)
		if bits < 64 {
			u &= uint64(1)<<uint(bits) - 1
		}
		return fmt.Sprintf("(_ bv%d %d)", u, bits)
	case SFP64:
		b := math.Float64bits(t.fv)
		return fmt.Sprintf("(fp #b%01b #b%011b #b%052b)", b>>63, (b>>52)&0x7ff, b&((1<<52)-1))
	case SFP32:
		b := math.Float32bits(float32(t.fv))
		return fmt.Sprintf("(fp #b%01b #b%08b #b%023b)", b>>31, (b>>23)&0xff, b&((1<<23)-1))
	case SStr:
		return "\"" + strings.ReplaceAll(t.sv, "\"", "\"\"") + "\""
	}
	return "?"
}

// ref is the text by which a term is referred to inside other terms.
func (t *Term) ref() string {
	if t.isConst {
		return t.lit()
	}
	if t.op == "" {
		return t.name
	}
	return "t!" + strconv.Itoa(t.id)
}

// body is the defining expression of a non-leaf term.
func (t *Term) body() string {
	var sb strings.Builder
	sb.WriteByte('(')
	sb.WriteString(t.op)
	for _, a := range t.args {
		sb.WriteByte(' ')
		sb.WriteString(a.ref())
	}
	sb.WriteByte(')')
	return sb.String()
}

// String renders the full tree (debugging / samples; may be large).
func (t *Term) String() string {
	if t.isConst || t.op == "" {
		return t.ref()
	}
	var sb strings.Builder
	t.write(&sb, 0)
	return sb.String()
}

func (t *Term) write(sb *strings.Builder, depth int) {
	if t.isConst || t.op == "" {
		sb.WriteString(t.ref())
		return
	}
	if depth > 12 || sb.Len() > 400 {
		sb.WriteString("…")
		return
	}
	sb.WriteByte('(')
	sb.WriteString(t.op)
	for _, a := range t.args {
		sb.WriteByte(' ')
		a.write(sb, depth+1)
	}
	sb.WriteByte(')')
}

// Eval evaluates a term under a concrete assignment of its variables (real mode
// uses exact rationals). Used to validate encodings against native runs.
func (t *Term) IsConst() bool { return t.isConst }
