package sym

import (
	"bufio"
	"bytes"
	"fmt"
	"io"
	"math"
	"math/big"
	"os"
	"os/exec"
	"strconv"
	"strings"
	"time"
)

// Result of a satisfiability query.
type Result int

const (
	Unknown Result = iota
	Sat
	Unsat
)

func (r Result) String() string {
	switch r {
	case Sat:
		return "sat"
	case Unsat:
		return "unsat"
	}
	return "unknown"
}

// SolverStats are aggregated into evidence.
type SolverStats struct {
	Queries       int
	Sat           int
	Unsat         int
	Unknown       int
	Errors        int
	Fallback      int // queries re-sent to the portfolio solvers
	Killed        int // solver processes killed by the watchdog
	BySolver      map[string]int
	Time          time.Duration
	CrossChecked  int
	CrossDisagree int
}

func (a *SolverStats) Add(b *SolverStats) {
	a.Queries += b.Queries
	a.Sat += b.Sat
	a.Unsat += b.Unsat
	a.Unknown += b.Unknown
	a.Errors += b.Errors
	a.Fallback += b.Fallback
	a.Killed += b.Killed
	a.Time += b.Time
	a.CrossChecked += b.CrossChecked
	a.CrossDisagree += b.CrossDisagree
	if a.BySolver == nil {
		a.BySolver = map[string]int{}
	}
	for k, v := range b.BySolver {
		a.BySolver[k] += v
	}
}

// Solver is one long-lived `z3 -in` process with a run-level context.
type Solver struct {
	cmd        *exec.Cmd
	in         io.WriteCloser
	out        *bufio.Reader
	lines      chan string
	transcript []string
	defined    map[int]bool
	declared   map[string]bool
	TimeoutMs  int
	Stats      SolverStats
	CrossEvery int // cross-check every k-th decided query on the other solvers (0 = never)
	nDecided   int
	marker     int
	Log        io.Writer
	dead       bool
	lemma      map[int]Result // fp-sub lemma per width
	noFallback bool
	Deadline   time.Time // queries after this instant answer unknown (case budget)
}

func NewSolver(timeoutMs int) (*Solver, error) {
	s := &Solver{TimeoutMs: timeoutMs}
	s.Stats.BySolver = map[string]int{}
	if err := s.start(); err != nil {
		return nil, err
	}
	return s, nil
}

func (s *Solver) start() error {
	cmd := exec.Command("z3", "-in", "-smt2")
	in, err := cmd.StdinPipe()
	if err != nil {
		return err
	}
	out, err := cmd.StdoutPipe()
	if err != nil {
		return err
	}
	cmd.Stderr = cmd.Stdout
	if err := cmd.Start(); err != nil {
		return err
	}
	s.cmd, s.in, s.out = cmd, in, bufio.NewReaderSize(out, 1<<16)
	s.lines = make(chan string, 256)
	go func(r *bufio.Reader, ch chan string) {
		defer close(ch)
		for {
			line, err := r.ReadString('\n')
			if line != "" {
				ch <- strings.TrimRight(line, "\r\n")
			}
			if err != nil {
				return
			}
		}
	}(s.out, s.lines)
	s.dead = false
	s.Reset()
	return nil
}

func (s *Solver) Close() {
	if s.cmd != nil {
		s.in.Close()
		s.cmd.Process.Kill()
		s.cmd.Wait()
		s.cmd = nil
	}
}

func (s *Solver) send(line string) {
	if s.Log != nil {
		fmt.Fprintln(s.Log, line)
	}
	if s.dead {
		return
	}
	if _, err := io.WriteString(s.in, line+"\n"); err != nil {
		s.dead = true
	}
}

// Reset clears the run-level context.
func (s *Solver) Reset() {
	if s.dead {
		s.Close()
		s.start()
		return
	}
	s.transcript = s.transcript[:0]
	s.defined = map[int]bool{}
	s.declared = map[string]bool{}
	s.send("(reset)")
	s.send(fmt.Sprintf("(set-option :timeout %d)", s.TimeoutMs))
	s.send("(set-option :pp.decimal false)")
}

func (s *Solver) emit(line string) {
	s.transcript = append(s.transcript, line)
	s.send(line)
}

// define makes sure t (and its sub-terms) are declared/defined at run level.
func (s *Solver) define(t *Term) {
	if t.isConst {
		return
	}
	if t.op == "" {
		if !s.declared[t.name] {
			s.declared[t.name] = true
			s.emit(fmt.Sprintf("(declare-const %s %s)", t.name, t.sort))
		}
		return
	}
	if s.defined[t.id] {
		return
	}
	for _, a := range t.args {
		s.define(a)
	}
	s.defined[t.id] = true
	s.emit(fmt.Sprintf("(define-fun %s () %s %s)", t.ref(), t.sort, t.body()))
}

// Assert adds t to the run-level context (path condition).
func (s *Solver) Assert(t *Term) {
	s.define(t)
	s.emit("(assert " + t.ref() + ")")
}

// readUntilMarker collects output lines until the echo marker. A solver that
// does not answer within its own timeout plus a grace period is killed (z3 does
// not always honour :timeout inside nlsat); the caller then sees an error.
func (s *Solver) readUntilMarker() ([]string, error) {
	s.marker++
	m := fmt.Sprintf("@@%d@@", s.marker)
	s.send("(echo \"" + m + "\")")
	var lines []string
	if s.dead {
		return lines, fmt.Errorf("solver dead")
	}
	timer := time.NewTimer(time.Duration(s.TimeoutMs)*time.Millisecond + 5*time.Second)
	defer timer.Stop()
	for {
		select {
		case line, ok := <-s.lines:
			if !ok {
				s.dead = true
				return lines, fmt.Errorf("solver exited")
			}
			if strings.Contains(line, m) {
				return lines, nil
			}
			lines = append(lines, line)
		case <-timer.C:
			s.Stats.Killed++
			s.cmd.Process.Kill()
			s.dead = true
			return lines, fmt.Errorf("solver watchdog")
		}
	}
}

// CheckQuick is Check under a shorter per-query timeout and without the portfolio
// fallback (used for optional model refinement).
func (s *Solver) CheckQuick(extra []*Term, vars []*Term, timeoutMs int) (Result, map[string]string) {
	old := s.TimeoutMs
	s.TimeoutMs = timeoutMs
	s.noFallback = true
	s.send(fmt.Sprintf("(set-option :timeout %d)", timeoutMs))
	r, m := s.Check(extra, vars)
	s.TimeoutMs = old
	s.noFallback = false
	if !s.dead {
		s.send(fmt.Sprintf("(set-option :timeout %d)", old))
	}
	return r, m
}

// Check asks whether context ∧ extra is satisfiable; with vars, returns a model on sat.
func (s *Solver) Check(extra []*Term, vars []*Term) (Result, map[string]string) {
	t0 := time.Now()
	if !s.Deadline.IsZero() && t0.After(s.Deadline) {
		s.Stats.Queries++
		s.Stats.Unknown++
		return Unknown, nil
	}
	defer func() { s.Stats.Time += time.Since(t0) }()
	s.Stats.Queries++
	for _, e := range extra {
		s.define(e)
	}
	for _, v := range vars {
		s.define(v)
	}
	var q []string
	for _, e := range extra {
		q = append(q, "(assert "+e.ref()+")")
	}
	s.send("(push 1)")
	for _, l := range q {
		s.send(l)
	}
	s.send("(check-sat)")
	lines, err := s.readUntilMarker()
	res := Unknown
	hadErr := err != nil && !s.dead // a watchdog kill / solver exit is a timeout, not a rejected query
	for _, l := range lines {
		switch {
		case strings.HasPrefix(l, "(error"):
			hadErr = true
		case l == "sat":
			res = Sat
		case l == "unsat":
			res = Unsat
		}
	}
	if hadErr {
		s.Stats.Errors++
		if os.Getenv("VERIF_DEBUG") != "" {
			fmt.Fprintln(os.Stderr, "solver error lines:", strings.Join(lines, " | "))
		}
		res = Unknown
	}
	var model map[string]string
	if res == Sat && len(vars) > 0 {
		var names []string
		for _, v := range vars {
			names = append(names, v.name)
		}
		s.send("(get-value (" + strings.Join(names, " ") + "))")
		ml, _ := s.readUntilMarker()
		model = parseModel(strings.Join(ml, " "))
	}
	s.send("(pop 1)")
	if s.dead {
		res = Unknown
	}
	solver := "z3"
	if res == Unknown && s.noFallback {
		if s.dead {
			tr := append([]string(nil), s.transcript...)
			df, dc := s.defined, s.declared
			s.Close()
			if s.start() == nil {
				for _, l := range tr {
					s.emit(l)
				}
				s.defined, s.declared = df, dc
			}
		}
	} else if res == Unknown {
		// portfolio: the same query, one-shot, on cvc5 and z3 5.x
		s.Stats.Fallback++
		r2, m2, who := s.fallback(q, vars)
		if r2 != Unknown {
			res, model, solver = r2, m2, who
		}
		if s.dead {
			tr := append([]string(nil), s.transcript...)
			df, dc := s.defined, s.declared
			s.Close()
			if s.start() == nil {
				for _, l := range tr {
					s.emit(l)
				}
				s.defined, s.declared = df, dc
			}
		}
	} else if s.CrossEvery > 0 {
		s.nDecided++
		if s.nDecided%s.CrossEvery == 0 {
			r2, _, _ := s.fallback(q, nil)
			if r2 != Unknown {
				s.Stats.CrossChecked++
				if r2 != res {
					s.Stats.CrossDisagree++
					res = Unknown
				}
			}
		}
	}
	switch res {
	case Sat:
		s.Stats.Sat++
	case Unsat:
		s.Stats.Unsat++
	default:
		s.Stats.Unknown++
	}
	s.Stats.BySolver[solver]++
	return res, model
}

// fallback runs the query one-shot on cvc5, then z3-new.
func (s *Solver) fallback(q []string, vars []*Term) (Result, map[string]string, string) {
	var sb strings.Builder
	for _, l := range s.transcript {
		sb.WriteString(l)
		sb.WriteByte('\n')
	}
	for _, l := range q {
		sb.WriteString(l)
		sb.WriteByte('\n')
	}
	sb.WriteString("(check-sat)\n")
	if len(vars) > 0 {
		var names []string
		for _, v := range vars {
			names = append(names, v.name)
		}
		sb.WriteString("(get-value (" + strings.Join(names, " ") + "))\n")
	}
	body := sb.String()
	try := func(name string, args []string, prelude string) (Result, map[string]string) {
		cmd := exec.Command(name, args...)
		cmd.Stdin = strings.NewReader(prelude + body)
		var out bytes.Buffer
		cmd.Stdout = &out
		cmd.Stderr = &out
		done := make(chan error, 1)
		if err := cmd.Start(); err != nil {
			return Unknown, nil
		}
		go func() { done <- cmd.Wait() }()
		select {
		case <-done:
		case <-time.After(time.Duration(s.TimeoutMs+2000) * time.Millisecond):
			cmd.Process.Kill()
			<-done
			return Unknown, nil
		}
		text := out.String()
		if strings.Contains(text, "(error") {
			// errors after a verdict (e.g. get-value on unsat) are harmless; before it they are not
			idx := strings.Index(text, "(error")
			vi := strings.Index(text, "sat")
			if vi < 0 || idx < vi {
				return Unknown, nil
			}
		}
		lines := strings.Split(text, "\n")
		for i, l := range lines {
			l = strings.TrimSpace(l)
			if l == "unsat" {
				return Unsat, nil
			}
			if l == "sat" {
				var m map[string]string
				if len(vars) > 0 {
					m = parseModel(strings.Join(lines[i+1:], " "))
				}
				return Sat, m
			}
			if l == "unknown" {
				return Unknown, nil
			}
		}
		return Unknown, nil
	}
	if !strings.Contains(body, "String") || true {
		r, m := try("cvc5", []string{"--lang=smt2", "--produce-models", fmt.Sprintf("--tlimit=%d", s.TimeoutMs)}, "(set-logic ALL)\n")
		if r != Unknown {
			return r, m, "cvc5"
		}
	}
	r, m := try("z3-new", []string{"-in", "-smt2", fmt.Sprintf("-t:%d", s.TimeoutMs)}, "")
	if r != Unknown {
		return r, m, "z3-new"
	}
	return Unknown, nil, ""
}

// ---- model parsing ----

type sexpr struct {
	atom string
	list []*sexpr
}

func parseSexprs(s string) []*sexpr {
	var stack [][]*sexpr
	cur := []*sexpr{}
	i := 0
	for i < len(s) {
		c := s[i]
		switch {
		case c == '(':
			stack = append(stack, cur)
			cur = []*sexpr{}
			i++
		case c == ')':
			if len(stack) == 0 {
				return cur
			}
			l := &sexpr{list: cur}
			if l.list == nil {
				l.list = []*sexpr{}
			}
			cur = stack[len(stack)-1]
			stack = stack[:len(stack)-1]
			cur = append(cur, l)
			i++
		case c == ' ' || c == '\t' || c == '\n' || c == '\r':
			i++
		case c == '"':
			j := i + 1
			for j < len(s) {
				if s[j] == '"' {
					if j+1 < len(s) && s[j+1] == '"' {
						j += 2
						continue
					}
					break
				}
				j++
			}
			cur = append(cur, &sexpr{atom: s[i:min(j+1, len(s))]})
			i = j + 1
		default:
			j := i
			for j < len(s) && !strings.ContainsRune("() \t\n\r", rune(s[j])) {
				j++
			}
			cur = append(cur, &sexpr{atom: s[i:j]})
			i = j
		}
	}
	return cur
}

func (e *sexpr) String() string {
	if e.list == nil {
		return e.atom
	}
	var parts []string
	for _, x := range e.list {
		parts = append(parts, x.String())
	}
	return "(" + strings.Join(parts, " ") + ")"
}

// parseModel turns ((x v) (y v)) into name -> canonical value text:
// reals "num/den", bit-vectors signed decimal is left to the caller (we give
// unsigned decimal + width as "bv:<u>:<w>"), bools "true"/"false", fp "fp:<bits hex>:<w>".
func parseModel(text string) map[string]string {
	m := map[string]string{}
	for _, top := range parseSexprs(text) {
		if top.list == nil {
			continue
		}
		for _, pair := range top.list {
			if pair.list == nil || len(pair.list) != 2 || pair.list[0].list != nil {
				continue
			}
			if v, ok := valueText(pair.list[1]); ok {
				m[pair.list[0].atom] = v
			} else {
				m[pair.list[0].atom] = "?" + pair.list[1].String()
			}
		}
	}
	return m
}

func evalRat(e *sexpr) (*big.Rat, bool) {
	if e.list == nil {
		r, ok := new(big.Rat).SetString(e.atom)
		return r, ok
	}
	if len(e.list) == 0 || e.list[0].list != nil {
		return nil, false
	}
	op := e.list[0].atom
	var args []*big.Rat
	for _, a := range e.list[1:] {
		r, ok := evalRat(a)
		if !ok {
			return nil, false
		}
		args = append(args, r)
	}
	switch {
	case op == "-" && len(args) == 1:
		return new(big.Rat).Neg(args[0]), true
	case op == "-" && len(args) == 2:
		return new(big.Rat).Sub(args[0], args[1]), true
	case op == "+" && len(args) == 2:
		return new(big.Rat).Add(args[0], args[1]), true
	case op == "*" && len(args) == 2:
		return new(big.Rat).Mul(args[0], args[1]), true
	case op == "/" && len(args) == 2 && args[1].Sign() != 0:
		return new(big.Rat).Quo(args[0], args[1]), true
	case op == "to_real" && len(args) == 1:
		return args[0], true
	}
	return nil, false
}

func valueText(e *sexpr) (string, bool) {
	if e.list == nil {
		a := e.atom
		switch {
		case a == "true" || a == "false":
			return a, true
		case strings.HasPrefix(a, "#x"):
			u, err := strconv.ParseUint(a[2:], 16, 64)
			if err != nil {
				return "", false
			}
			return fmt.Sprintf("bv:%d:%d", u, 4*(len(a)-2)), true
		case strings.HasPrefix(a, "#b"):
			u, err := strconv.ParseUint(a[2:], 2, 64)
			if err != nil {
				return "", false
			}
			return fmt.Sprintf("bv:%d:%d", u, len(a)-2), true
		case strings.HasPrefix(a, "\""):
			return "str:" + strings.ReplaceAll(a[1:len(a)-1], "\"\"", "\""), true
		}
		if r, ok := evalRat(e); ok {
			return r.RatString(), true
		}
		return "", false
	}
	if len(e.list) > 0 && e.list[0].list == nil {
		switch e.list[0].atom {
		case "fp":
			if len(e.list) == 4 {
				var bits uint64
				w := 0
				for _, p := range e.list[1:] {
					v, ok := valueText(p)
					if !ok || !strings.HasPrefix(v, "bv:") {
						return "", false
					}
					parts := strings.Split(v, ":")
					u, _ := strconv.ParseUint(parts[1], 10, 64)
					n, _ := strconv.Atoi(parts[2])
					bits = bits<<uint(n) | u
					w += n
				}
				return fmt.Sprintf("fp:%x:%d", bits, w), true
			}
		case "_":
			if len(e.list) == 4 {
				eb, _ := strconv.Atoi(e.list[2].atom)
				sb, _ := strconv.Atoi(e.list[3].atom)
				w := eb + sb
				var f float64
				switch e.list[1].atom {
				case "+zero":
					f = 0
				case "-zero":
					f = math.Copysign(0, -1)
				case "+oo":
					f = math.Inf(1)
				case "-oo":
					f = math.Inf(-1)
				case "NaN":
					f = math.NaN()
				default:
					return "", false
				}
				if w == 32 {
					return fmt.Sprintf("fp:%x:32", math.Float32bits(float32(f))), true
				}
				return fmt.Sprintf("fp:%x:64", math.Float64bits(f)), true
			}
			if len(e.list) == 3 && strings.HasPrefix(e.list[1].atom, "bv") {
				u, err := strconv.ParseUint(e.list[1].atom[2:], 10, 64)
				w, _ := strconv.Atoi(e.list[2].atom)
				if err == nil {
					return fmt.Sprintf("bv:%d:%d", u, w), true
				}
			}
		}
	}
	if r, ok := evalRat(e); ok {
		return r.RatString(), true
	}
	return "", false
}

// FPSubLemma discharges, once per solver process and width, the lemma
//
//	finite a, b  =>  ((a - b) == 0 <=> a == b) and ((a - b) < 0 <=> a < b) and ((a - b) > 0 <=> a > b)
//
// (round-to-nearest-even subtraction). It is used as a rewrite only when unsat was returned.
func (s *Solver) FPSubLemma() bool {
	if s.lemma == nil {
		s.lemma = map[int]Result{}
	}
	ok := true
	for _, w := range [][2]int{{8, 24}, {11, 53}} {
		key := w[0] + w[1]
		if _, done := s.lemma[key]; !done {
			fp := fmt.Sprintf("(_ FloatingPoint %d %d)", w[0], w[1])
			z := fmt.Sprintf("(_ +zero %d %d)", w[0], w[1])
			q := []string{
				"(declare-const la " + fp + ")", "(declare-const lb " + fp + ")",
				"(assert (not (fp.isNaN la)))", "(assert (not (fp.isInfinite la)))",
				"(assert (not (fp.isNaN lb)))", "(assert (not (fp.isInfinite lb)))",
				"(define-fun ld () " + fp + " (fp.sub RNE la lb))",
				"(assert (or (not (= (fp.eq ld " + z + ") (fp.eq la lb))) (not (= (fp.lt ld " + z + ") (fp.lt la lb))) (not (= (fp.gt ld " + z + ") (fp.gt la lb)))))",
			}
			s.lemma[key] = s.oneShot(q)
		}
		if s.lemma[key] != Unsat {
			ok = false
		}
	}
	return ok
}

// oneShot decides a self-contained query in fresh solver processes (cvc5, then z3);
// incremental z3 is much slower on floating-point lemmas.
func (s *Solver) oneShot(lines []string) Result {
	t0 := time.Now()
	defer func() { s.Stats.Time += time.Since(t0) }()
	s.Stats.Queries++
	body := strings.Join(lines, "\n") + "\n(check-sat)\n"
	run := func(name string, args []string, prelude string) Result {
		cmd := exec.Command(name, args...)
		cmd.Stdin = strings.NewReader(prelude + body)
		var out bytes.Buffer
		cmd.Stdout, cmd.Stderr = &out, &out
		if err := cmd.Start(); err != nil {
			return Unknown
		}
		done := make(chan error, 1)
		go func() { done <- cmd.Wait() }()
		select {
		case <-done:
		case <-time.After(120 * time.Second):
			cmd.Process.Kill()
			<-done
			return Unknown
		}
		if strings.Contains(out.String(), "(error") {
			return Unknown
		}
		for _, l := range strings.Split(out.String(), "\n") {
			switch strings.TrimSpace(l) {
			case "unsat":
				return Unsat
			case "sat":
				return Sat
			}
		}
		return Unknown
	}
	r := run("cvc5", []string{"--lang=smt2", "--tlimit=100000"}, "(set-logic ALL)\n")
	who := "cvc5"
	if r == Unknown {
		r = run("z3", []string{"-in", "-smt2", "-T:100"}, "")
		who = "z3"
	}
	switch r {
	case Sat:
		s.Stats.Sat++
	case Unsat:
		s.Stats.Unsat++
	default:
		s.Stats.Unknown++
	}
	s.Stats.BySolver[who+"(one-shot)"]++
	return r
}
