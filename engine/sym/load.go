package sym

import (
	"fmt"
	"go/token"
	"go/types"
	"os"
	"sort"
	"strings"

	"golang.org/x/tools/go/packages"
	"golang.org/x/tools/go/ssa"
	"golang.org/x/tools/go/ssa/ssautil"
)

// Program is the loaded SSA of the harness packages and everything below.
type Program struct {
	Prog       *ssa.Program
	Fset       *token.FileSet
	Pkgs       map[string]*ssa.Package
	ErrType    types.Type
	ReflTypeT  types.Type // dynamic type used for the executor\'s reflect.Type values
	Stubs      map[string]*ssa.Function
	inits      []*ssa.Function
	HasSelect  bool
	InstrKinds map[string]int
}

const repoModule = "github.com/cinar/indicator/v2"

func isModulePkg(path string) bool {
	return strings.HasPrefix(path, repoModule) || strings.HasPrefix(path, "verif/harness")
}

// Load loads the given package patterns from dir (the harness module).
func Load(dir string, patterns ...string) (*Program, error) {
	cfg := &packages.Config{
		Mode: packages.NeedName | packages.NeedFiles | packages.NeedCompiledGoFiles | packages.NeedImports |
			packages.NeedDeps | packages.NeedTypes | packages.NeedSyntax | packages.NeedTypesInfo | packages.NeedTypesSizes | packages.NeedModule,
		Dir: dir,
		Env: append(os.Environ(), "GOFLAGS=-mod=mod", "GOPROXY=off", "GOSUMDB=off", "GOTOOLCHAIN=local"),
	}
	initial, err := packages.Load(cfg, patterns...)
	if err != nil {
		return nil, err
	}
	var errs []string
	packages.Visit(initial, nil, func(p *packages.Package) {
		for _, e := range p.Errors {
			errs = append(errs, e.Error())
		}
	})
	if len(errs) > 0 {
		return nil, fmt.Errorf("load errors:\n%s", strings.Join(errs, "\n"))
	}
	prog, _ := ssautil.AllPackages(initial, ssa.InstantiateGenerics)
	prog.Build()
	p := &Program{Prog: prog, Fset: prog.Fset, Pkgs: map[string]*ssa.Package{}, Stubs: map[string]*ssa.Function{}, InstrKinds: map[string]int{}}
	for _, sp := range prog.AllPackages() {
		p.Pkgs[sp.Pkg.Path()] = sp
	}
	if ep := p.Pkgs["errors"]; ep != nil {
		if t := ep.Type("errorString"); t != nil {
			p.ErrType = types.NewPointer(t.Type())
		}
	}
	if rp := p.Pkgs["reflect"]; rp != nil {
		if t := rp.Type("rtype"); t != nil {
			p.ReflTypeT = types.NewPointer(t.Type())
		}
	}
	// init order: dependency order of module packages
	var order []*ssa.Package
	seen := map[*types.Package]bool{}
	var visit func(tp *types.Package)
	visit = func(tp *types.Package) {
		if seen[tp] {
			return
		}
		seen[tp] = true
		imps := tp.Imports()
		sort.Slice(imps, func(i, j int) bool { return imps[i].Path() < imps[j].Path() })
		for _, ip := range imps {
			visit(ip)
		}
		if isModulePkg(tp.Path()) && tp.Path() != vrtPkg {
			if sp := p.Pkgs[tp.Path()]; sp != nil {
				order = append(order, sp)
			}
		}
	}
	for _, ip := range initial {
		visit(ip.Types)
	}
	for _, sp := range order {
		if f := sp.Func("init"); f != nil {
			p.inits = append(p.inits, f)
		}
	}
	// measure: select / instruction kinds in module packages
	for _, sp := range order {
		if !strings.HasPrefix(sp.Pkg.Path(), repoModule) {
			continue
		}
		for _, m := range sp.Members {
			if fn, ok := m.(*ssa.Function); ok {
				p.scan(fn)
			}
		}
	}
	return p, nil
}

func (p *Program) scan(fn *ssa.Function) {
	for _, b := range fn.Blocks {
		for _, in := range b.Instrs {
			k := fmt.Sprintf("%T", in)
			p.InstrKinds[k]++
			if _, ok := in.(*ssa.Select); ok {
				p.HasSelect = true
			}
		}
	}
	for _, a := range fn.AnonFuncs {
		p.scan(a)
	}
}

// Func finds a package-level function.
func (p *Program) Func(pkg, name string) *ssa.Function {
	sp := p.Pkgs[pkg]
	if sp == nil {
		return nil
	}
	return sp.Func(name)
}

// runInits executes the package initialisers of module packages.
func (ex *Exec) runInits() {
	if ex.SkipInits {
		return
	}
	for _, f := range ex.Prog.inits {
		g := &G{id: -1}
		g.frames = []*Frame{ex.newFrame(f, nil, nil)}
		ex.inInit = true
		ex.cur = g
		for g.status == gRunnable && len(g.frames) > 0 {
			fr := g.frames[len(g.frames)-1]
			in := fr.block.Instrs[fr.pc]
			if c, ok := in.(*ssa.Call); ok {
				if callee := c.Call.StaticCallee(); callee != nil && callee.Name() == "init" && callee.Synthetic != "" {
					fr.pc++ // dependency initialiser: handled by our own order
					continue
				}
			}
			ex.step(g)
		}
		ex.inInit = false
	}
	ex.cur = nil
	ex.events = nil
	ex.edges = nil
}
