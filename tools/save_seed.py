#!/usr/bin/env python3
# usage: save_seed.py <mutation dir> <seed id e.g. C07-3> <caught_by comma list or -> <detection text>
import sys, json, os, shutil
src, sid, caught, det = sys.argv[1:5]
d = '/verif/seeded/' + sid
os.makedirs(d, exist_ok=True)
shutil.copy(src + '/patch.diff', d + '/patch.diff')
shutil.copy(src + '/demo_test.go', d + '/demo_test.go.txt')
m = json.load(open(src + '/meta.json'))
m['authored_by'] = "independent sub-agent given only the property text and a scratch worktree"
m['confirmed'] = "tools/try_mutation.sh: applies in a scratch worktree of /repo, builds, full suite passes with the change, demo fails with it and passes without it"
m['caught_by'] = [] if caught == '-' else caught.split(',')
m['detection'] = det
json.dump(m, open(d + '/meta.json', 'w'), indent=1)
print('saved', d)
