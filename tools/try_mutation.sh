#!/bin/bash
# usage: try_mutation.sh <mutation dir with patch.diff demo_test.go meta.json> <property> [more properties...]
# Works entirely on a scratch worktree of /repo (never modifies /repo or /verif):
# 1. confirms that the change compiles, passes the suite, and that the demo fails with / passes without it
# 2. runs the quick checks of the given properties against the mutated worktree (VERIF_SCRATCH)
set -u
export GOFLAGS=-mod=mod GOPROXY=off GOSUMDB=off GOTOOLCHAIN=local
D=$(realpath "$1"); shift
S=/tmp/mt_$$
W=$S/repo
mkdir -p $S
git -C /repo worktree add -q --detach $W HEAD || exit 2
trap 'git -C /repo worktree remove --force '$W' 2>/dev/null; rm -rf '$S EXIT
cd $W
git apply "$D/patch.diff" || { echo "CONFIRM: patch does not apply"; exit 2; }
go build ./... || { echo "CONFIRM: does not build"; exit 2; }
if go test -vet=off -count=1 ./... > $S/suite.log 2>&1; then echo "CONFIRM: suite passes with the change"; else echo "CONFIRM: SUITE FAILS with the change"; grep -v "^ok" $S/suite.log | head -5; fi
DEST=$(python3 - "$D" <<'PY'
import sys,re,os
t=open(sys.argv[1]+'/demo_test.go').read()
pk=re.search(r'^package (\w+)',t,re.M).group(1)
head=t.split('\npackage')[0]
cands=re.findall(r'((?:strategy|helper|trend|momentum|volatility|volume|asset|backtest)(?:/\w+)*)/?',head)
cands=sorted(set(cands),key=lambda x:-len(x))
for d in cands:
    if os.path.isdir(d):
        h=[f for f in os.listdir(d) if f.endswith('.go')]
        if h:
            m=re.search(r'^package (\w+)',open(os.path.join(d,h[0])).read(),re.M)
            if m and m.group(1)==pk.replace('_test',''):
                print(d); sys.exit()
for root,dirs,files in os.walk('.'):
    for f in files:
        if f.endswith('.go'):
            m=re.search(r'^package (\w+)',open(os.path.join(root,f)).read(600),re.M)
            if m and m.group(1)==pk.replace('_test',''):
                print(root[2:]); sys.exit()
PY
)
echo "CONFIRM: demo package dir = $DEST"
cp "$D/demo_test.go" "$DEST/zz_demo_test.go"
if timeout 120 go test -vet=off -count=1 "./$DEST/" > $S/demo1.log 2>&1; then echo "CONFIRM: DEMO PASSES WITH THE CHANGE (not a breaking change?)"; else echo "CONFIRM: demo fails with the change"; fi
git apply -R "$D/patch.diff"
if timeout 120 go test -vet=off -count=1 "./$DEST/" > $S/demo2.log 2>&1; then echo "CONFIRM: demo passes without the change"; else echo "CONFIRM: DEMO FAILS WITHOUT THE CHANGE"; tail -5 $S/demo2.log; fi
rm -f "$DEST/zz_demo_test.go"
git apply "$D/patch.diff"
# scratch harness module pointing at the mutated worktree
cp -r /verif/harness $S/harness
sed -i "s|=> /repo|=> $W|" $S/harness/go.mod
cd /verif
for P in "$@"; do
  VERIF_SCRATCH=$S ./bin/vcheck $P > $S/run_$P.log 2>&1; rc=$?
  echo "CHECK $P exit=$rc: $(grep -c '^VIOLATION' $S/run_$P.log) VIOLATION lines; $(grep "^$P quick" $S/run_$P.log)"
  grep -A1 "^VIOLATION" $S/run_$P.log | grep -v "^--" | head -6 | cut -c1-220
done
