// Package vrt is the harness runtime. The symbolic executor intercepts every
// function of this package; the bodies below are the native (replay) semantics.
package vrt

import (
	"encoding/json"
	"fmt"
	"math"
	"math/big"
	"os"
	"reflect"
	"strconv"
	"strings"
	"sync"
	"time"
	"unsafe"
)

// Replay state (native runs only).
var (
	mu         sync.Mutex
	assignment = map[string]string{}
	Failures   []string
	Passed     int
	Reached    []string
	Notes      []string
	Tol        = 1e-6
)

// LoadAssignment reads {"assignment": {...}} from a replay file.
func LoadAssignment(path string) (map[string]interface{}, error) {
	data, err := os.ReadFile(path)
	if err != nil {
		return nil, err
	}
	var doc map[string]interface{}
	if err := json.Unmarshal(data, &doc); err != nil {
		return nil, err
	}
	Reset()
	if a, ok := doc["assignment"].(map[string]interface{}); ok {
		for k, v := range a {
			assignment[k] = fmt.Sprint(v)
		}
	}
	return doc, nil
}

func Reset() {
	mu.Lock()
	defer mu.Unlock()
	assignment = map[string]string{}
	Failures, Reached, Notes, Passed, Obs = nil, nil, nil, 0, nil
}

func Set(name, val string) { assignment[name] = val }

func Name(prefix string, idx ...int) string {
	for _, i := range idx {
		prefix += "_" + strconv.Itoa(i)
	}
	return prefix
}

// RandomSeed != 0 makes unassigned inputs pseudo-random (deterministic per name and seed).
var RandomSeed uint64

func lookup(name string) (string, bool) {
	mu.Lock()
	defer mu.Unlock()
	v, ok := assignment[name]
	if !ok && RandomSeed != 0 {
		h := RandomSeed*0x9E3779B97F4A7C15 + 0x1234567
		for i := 0; i < len(name); i++ {
			h = (h ^ uint64(name[i])) * 0x100000001b3
		}
		h ^= h >> 29
		// small dyadic rationals in [-8, 8): exact in float64; "true"/"false" for booleans is
		// decided by the caller through parse*, so encode as an integer over 16
		v = fmt.Sprintf("%d/16", int64(h%256)-128)
		ok = true
		assignment[name] = v
	}
	return v, ok
}

func parseFloat(v string) float64 {
	switch {
	case strings.HasPrefix(v, "fp:"):
		parts := strings.Split(v, ":")
		bits, _ := strconv.ParseUint(parts[1], 16, 64)
		if parts[2] == "32" {
			return float64(math.Float32frombits(uint32(bits)))
		}
		return math.Float64frombits(bits)
	}
	if r, ok := new(big.Rat).SetString(v); ok {
		f, _ := r.Float64()
		return f
	}
	return 1
}

func parseInt(v string, bits int) int64 {
	if strings.HasPrefix(v, "bv:") {
		parts := strings.Split(v, ":")
		u, _ := strconv.ParseUint(parts[1], 10, 64)
		switch bits {
		case 8:
			return int64(int8(u))
		case 16:
			return int64(int16(u))
		case 32:
			return int64(int32(u))
		}
		return int64(u)
	}
	if strings.Contains(v, "/") {
		return int64(parseFloat(v) * 16)
	}
	i, _ := strconv.ParseInt(v, 10, 64)
	return i
}

func Float64(name string, idx ...int) float64 {
	if v, ok := lookup(Name(name, idx...)); ok {
		return parseFloat(v)
	}
	return 1
}

func Float32(name string, idx ...int) float32 { return float32(Float64(name, idx...)) }

func Floats(prefix string, n int) []float64 {
	xs := make([]float64, n)
	for i := range xs {
		xs[i] = Float64(prefix, i)
	}
	return xs
}

func Int(name string, idx ...int) int {
	if v, ok := lookup(Name(name, idx...)); ok {
		return int(parseInt(v, 64))
	}
	return 0
}
func Int8(name string, idx ...int) int8 {
	if v, ok := lookup(Name(name, idx...)); ok {
		return int8(parseInt(v, 8))
	}
	return 0
}
func Int16(name string, idx ...int) int16 {
	if v, ok := lookup(Name(name, idx...)); ok {
		return int16(parseInt(v, 16))
	}
	return 0
}
func Int32(name string, idx ...int) int32 {
	if v, ok := lookup(Name(name, idx...)); ok {
		return int32(parseInt(v, 32))
	}
	return 0
}
func Int64(name string, idx ...int) int64 {
	if v, ok := lookup(Name(name, idx...)); ok {
		return parseInt(v, 64)
	}
	return 0
}

// Number is the element constraint of the library's generic containers.
type Number interface {
	~int | ~int8 | ~int16 | ~int32 | ~int64 | ~float32 | ~float64
}

// Num returns a nondeterministic value of any numeric type.
func Num[T Number](name string, idx ...int) T {
	var z T
	v, ok := lookup(Name(name, idx...))
	if !ok {
		return z
	}
	switch any(z).(type) {
	case float64, float32:
		return T(parseFloat(v))
	}
	bits := int(unsafe.Sizeof(z)) * 8
	return T(parseInt(v, bits))
}

// Choice is a nondeterministic outcome in [0, n) (e.g. which result a stubbed
// environment call produces); the symbolic run explores every value.
func Choice(name string, n int, idx ...int) int {
	v := Int(name, idx...)
	if v < 0 || v >= n {
		return 0
	}
	return v
}

func Bool(name string, idx ...int) bool {
	v, ok := lookup(Name(name, idx...))
	if ok && strings.Contains(v, "/") {
		return parseFloat(v) >= 0
	}
	return ok && v == "true"
}

// Rat is the exact rational num/den (a float64 natively).
func Rat(num, den int) float64 { return float64(num) / float64(den) }

// Assume: natively a violated assumption marks the run as outside the claim.
func Assume(c bool) {
	if !c {
		mu.Lock()
		Notes = append(Notes, "assumption violated")
		mu.Unlock()
	}
}

func fail(label string) {
	mu.Lock()
	Failures = append(Failures, label)
	mu.Unlock()
}

func pass() {
	mu.Lock()
	Passed++
	mu.Unlock()
}

// Observations (label, value of the left operand) for translator validation.
var Observe bool
var Obs []string

func obs(label string, v any) {
	if !Observe {
		return
	}
	var t string
	switch x := v.(type) {
	case float64:
		t = strconv.FormatFloat(x, 'g', 17, 64)
	case float32:
		t = strconv.FormatFloat(float64(x), 'g', 17, 64)
	case bool:
		t = fmt.Sprint(x)
	case string:
		t = x
	default:
		rv := reflect.ValueOf(v)
		if rv.IsValid() && rv.CanInt() {
			t = strconv.FormatInt(rv.Int(), 10)
		} else {
			t = "?"
		}
	}
	mu.Lock()
	Obs = append(Obs, label+" "+t)
	mu.Unlock()
}

func Assert(label string, c bool) {
	obs(label, c)
	assert0(label, c)
}

func assert0(label string, c bool) {
	if !c {
		fail(label)
	} else {
		pass()
	}
}

func AssertAt(label string, k int, c bool) { Assert(fmt.Sprintf("%s[%d]", label, k), c) }

func close2(a, b float64) bool {
	if a == b {
		return true
	}
	if math.IsNaN(a) || math.IsNaN(b) {
		return math.IsNaN(a) && math.IsNaN(b)
	}
	return math.Abs(a-b) <= Tol*math.Max(1, math.Max(math.Abs(a), math.Abs(b)))
}

func eq(a, b any) bool {
	switch x := a.(type) {
	case float64:
		return close2(x, b.(float64))
	case float32:
		return close2(float64(x), float64(b.(float32)))
	}
	return reflect.DeepEqual(a, b)
}

// AssertEq: exact in the symbolic (real-valued) semantics, tolerance natively.
func AssertEq(label string, a, b any) {
	obs(label, a)
	assert0(label, eq(a, b))
}

func AssertEqAt(label string, k int, a, b any) { AssertEq(fmt.Sprintf("%s[%d]", label, k), a, b) }

// KnownFinding is an assertion whose failure is a recorded finding.
func KnownFinding(id, label string, c bool)              { Assert(label, c) }
func KnownFindingAt(id, label string, k int, c bool)     { AssertAt(label, k, c) }
func KnownFindingEq(id, label string, a, b any)          { AssertEq(label, a, b) }
func KnownFindingEqAt(id, label string, k int, a, b any) { AssertEqAt(label, k, a, b) }

// KnownOutcome declares that a non-terminating / panicking outcome of the
// current case is a recorded finding.
func KnownOutcome(id string) {}
func KnownRace(id string)    {}
func KnownWrite(id string)   {}

// Possible is a satisfiability obligation: some input must make c true.
// Natively it records whether c was ever observed true (see TestReplay, kind "never").
var Possibles = map[string]bool{}

func Possible(label string, c bool) {
	mu.Lock()
	Possibles[label] = Possibles[label] || c
	mu.Unlock()
}

func PossibleAt(label string, k int, c bool) { Possible(fmt.Sprintf("%s[%d]", label, k), c) }

// Premises records whether the premise of a conditional obligation was ever true.
var Premises = map[string]bool{}

// PossibleIfAt: if the premise is satisfiable then c must be satisfiable too.
func PossibleIfAt(label string, k int, premise, c bool) {
	l := fmt.Sprintf("%s[%d]", label, k)
	mu.Lock()
	Premises[l] = Premises[l] || premise
	Possibles[l] = Possibles[l] || c
	mu.Unlock()
}

func Reach(label string) {
	mu.Lock()
	Reached = append(Reached, label)
	mu.Unlock()
}

func Note(key string, v any) {}

func Symbolic() bool { return false }

// Ite selects between two values (an if-then-else term symbolically).
func Ite[T any](c bool, a, b T) T {
	if c {
		return a
	}
	return b
}

// SetField writes a (possibly unexported) field of *obj.
func SetField(obj any, field string, v any) {
	f := reflect.ValueOf(obj).Elem().FieldByName(field)
	p := reflect.NewAt(f.Type(), unsafe.Pointer(f.UnsafeAddr())).Elem()
	if v == nil {
		p.Set(reflect.Zero(f.Type()))
		return
	}
	p.Set(reflect.ValueOf(v).Convert(f.Type()))
}

// Len / Index: length and element of a slice value of an unexported element type.
func Len(s any) int          { return reflect.ValueOf(s).Len() }
func Index(s any, i int) any { return reflect.ValueOf(s).Index(i).Interface() }

// NumFields is the number of fields of the struct *obj (harnesses that build
// representation states directly use it to notice a changed representation).
func NumFields(obj any) int { return reflect.ValueOf(obj).Elem().NumField() }

// GetField reads a (possibly unexported) field of *obj.
func GetField(obj any, field string) any {
	f := reflect.ValueOf(obj).Elem().FieldByName(field)
	return reflect.NewAt(f.Type(), unsafe.Pointer(f.UnsafeAddr())).Elem().Interface()
}

// Stub replaces a library/std function (by its full name) with harness code in
// the symbolic run; natively the real function runs.
func Stub(name string, fn any) {}

var epoch = time.Date(2000, 1, 1, 0, 0, 0, 0, time.UTC)

// dayShift aligns the model's symbolic "today" (assignment key "now") with the
// real clock, which a native run cannot set: all dates move by the same amount,
// so every comparison with time.Now() comes out as in the model.
func dayShift() int {
	v, ok := lookup("now")
	if !ok || RandomSeed != 0 {
		return 0
	}
	today := int(time.Now().UTC().Sub(epoch).Hours() / 24)
	return today - int(parseInt(v, 64))
}

// Day is the whole-day UTC date number n (days since 2000-01-01).
func Day(n int) time.Time { return epoch.AddDate(0, 0, n+dayShift()) }

// DayOf is the inverse of Day.
func DayOf(t time.Time) int { return int(math.Round(t.Sub(epoch).Hours()/24)) - dayShift() }

var tempDirs []string

// TempDir is a fresh directory natively (a fixed name in the symbolic run, where
// the file system is stubbed).
func TempDir() string {
	d, err := os.MkdirTemp("", "vrt")
	if err != nil {
		panic(err)
	}
	tempDirs = append(tempDirs, d)
	return d
}

// Cleanup removes the directories made by TempDir.
func Cleanup() {
	for _, d := range tempDirs {
		os.RemoveAll(d)
	}
	tempDirs = nil
}

// Freeze / Unfreeze: natively the reachable scalar state of obj is dumped before
// and after; a difference is the failure "instance-write" (the executor instead
// flags the store itself).
var frozenObj any
var frozenDump string

func dump(v reflect.Value, depth int, seen map[uintptr]bool, sb *strings.Builder) {
	if depth > 8 || !v.IsValid() {
		return
	}
	switch v.Kind() {
	case reflect.Ptr, reflect.Interface:
		if v.IsNil() {
			sb.WriteString("nil;")
			return
		}
		if v.Kind() == reflect.Ptr {
			if seen[v.Pointer()] {
				return
			}
			seen[v.Pointer()] = true
		}
		dump(v.Elem(), depth+1, seen, sb)
	case reflect.Struct:
		for i := 0; i < v.NumField(); i++ {
			sb.WriteString(v.Type().Field(i).Name + ":")
			dump(v.Field(i), depth+1, seen, sb)
		}
	case reflect.Slice, reflect.Array:
		fmt.Fprintf(sb, "[%d]", v.Len())
		for i := 0; i < v.Len(); i++ {
			dump(v.Index(i), depth+1, seen, sb)
		}
	case reflect.Map:
		fmt.Fprintf(sb, "map[%d];", v.Len())
	case reflect.Chan, reflect.Func, reflect.UnsafePointer:
		sb.WriteString("-;")
	case reflect.Bool:
		fmt.Fprintf(sb, "%v;", v.Bool())
	case reflect.Int, reflect.Int8, reflect.Int16, reflect.Int32, reflect.Int64:
		fmt.Fprintf(sb, "%d;", v.Int())
	case reflect.Uint, reflect.Uint8, reflect.Uint16, reflect.Uint32, reflect.Uint64, reflect.Uintptr:
		fmt.Fprintf(sb, "%d;", v.Uint())
	case reflect.Float32, reflect.Float64:
		fmt.Fprintf(sb, "%v;", v.Float())
	case reflect.String:
		sb.WriteString(v.String() + ";")
	}
}

func dumpOf(obj any) string {
	var sb strings.Builder
	dump(reflect.ValueOf(obj), 0, map[uintptr]bool{}, &sb)
	return sb.String()
}

func Freeze(obj any) {
	frozenObj, frozenDump = obj, dumpOf(obj)
}

func Unfreeze() {
	if frozenObj != nil && dumpOf(frozenObj) != frozenDump {
		fail("instance-write")
	}
	frozenObj = nil
}
func TrackMemory(on bool) {}
func Settle()             {}
