package h

import (
	"math"

	"github.com/cinar/indicator/v2/trend"
	"github.com/cinar/indicator/v2/volatility"
)

// Table entries for package volatility (Atr is in ind_examples.go).
// Every Ref restates the doc comment of the type / Appendix A of DESIGN.md and
// touches only the input positions of its own window.

// voSMAf: mean of f(j) over the p positions ending at i.
func voSMAf(p, i int, f func(j int) float64) float64 {
	s := 0.0
	for j := i - p + 1; j <= i; j++ {
		s += f(j)
	}
	return s / float64(p)
}

// voMaxf / voMinf: max / min of f(j) over the p positions ending at i.
func voMaxf(p, i int, f func(j int) float64) float64 {
	m := f(i - p + 1)
	for j := i - p + 2; j <= i; j++ {
		if v := f(j); v > m {
			m = v
		}
	}
	return m
}

func voMinf(p, i int, f func(j int) float64) float64 {
	m := f(i - p + 1)
	for j := i - p + 2; j <= i; j++ {
		if v := f(j); v < m {
			m = v
		}
	}
	return m
}

// voStd: population standard deviation of the p values ending at i:
// Sqrt(1/Period * Sum((value - sma)^2)).
func voStd(x []float64, p, i int) float64 {
	mean := rSMA(x, p, i)
	s := 0.0
	for j := i - p + 1; j <= i; j++ {
		d := x[j] - mean
		s += d * d
	}
	return math.Sqrt(s / float64(p))
}

// voTR: true range at position j >= 1 (Atr doc): max(h_j-l_j, h_j-c_{j-1}, c_{j-1}-l_j).
func voTR(h, l, c []float64, j int) float64 {
	return rMax2(h[j]-l[j], rMax2(h[j]-c[j-1], c[j-1]-l[j]))
}

// voATR: SMA_P of the true range, valid for i >= p.
func voATR(h, l, c []float64, p, i int) float64 {
	return voSMAf(p, i, func(j int) float64 { return voTR(h, l, c, j) })
}

// voSlope: slope m of the least-squares line through (t, y_j), t = j+1
// (t = 1,2,... counts the inputs), over the p positions ending at i (Mls doc):
// m = (p*sumXY - sumX*sumY) / (p*sumX2 - sumX*sumX).
func voSlope(y []float64, p, i int) float64 {
	sx, sy, sxy, sx2 := 0.0, 0.0, 0.0, 0.0
	for j := i - p + 1; j <= i; j++ {
		t := float64(j + 1)
		sx += t
		sy += y[j]
		sxy += t * y[j]
		sx2 += t * t
	}
	fp := float64(p)
	return (fp*sxy - sx*sy) / (fp*sx2 - sx*sx)
}

// voBB: Bollinger band o (0 upper, 1 middle, 2 lower) of c at i.
func voBB(c []float64, p, o, i int) float64 {
	mid := rSMA(c, p, i)
	switch o {
	case 0:
		return mid + 2*voStd(c, p, i)
	case 2:
		return mid - 2*voStd(c, p, i)
	}
	return mid
}

func init() {
	// AccelerationBands(P): h,l,c -> upper, middle, lower ; w = P-1.
	//   Upper = SMA(High * (1 + 4 * (High - Low) / (High + Low)))
	//   Middle = SMA(Closing)
	//   Lower = SMA(Low * (1 - 4 * (High - Low) / (High + Low)))
	reg(&Ind{
		Name: "AccelerationBands", In: "hlc", NOut: 3,
		Make: func(cfg []int) any {
			x := volatility.NewAccelerationBands[float64]()
			x.Period = cfg[0]
			return x
		},
		Idle: func(inst any, cfg []int) int { return inst.(*volatility.AccelerationBands[float64]).IdlePeriod() },
		Run: func(inst any, in []<-chan float64) []<-chan float64 {
			u, m, l := inst.(*volatility.AccelerationBands[float64]).Compute(in[0], in[1], in[2])
			return []<-chan float64{u, m, l}
		},
		Ref: func(cfg []int, in [][]float64, o, i int) float64 {
			h, l, c := in[0], in[1], in[2]
			switch o {
			case 0:
				return voSMAf(cfg[0], i, func(j int) float64 { return h[j] * (1 + 4*(h[j]-l[j])/(h[j]+l[j])) })
			case 2:
				return voSMAf(cfg[0], i, func(j int) float64 { return l[j] * (1 - 4*(h[j]-l[j])/(h[j]+l[j])) })
			}
			return rSMA(c, cfg[0], i)
		},
		Deg:     [][2]int{{1, 0}, {1, 0}, {1, 0}},
		Ordered: true,
	})

	// BollingerBands(P): c -> upper, middle, lower ; w = P-1. SMA_P +- 2*Std_P.
	reg(&Ind{
		Name: "BollingerBands", In: "c", NOut: 3,
		Make: func(cfg []int) any { return volatility.NewBollingerBandsWithPeriod[float64](cfg[0]) },
		Idle: func(inst any, cfg []int) int { return inst.(*volatility.BollingerBands[float64]).IdlePeriod() },
		Run: func(inst any, in []<-chan float64) []<-chan float64 {
			u, m, l := inst.(*volatility.BollingerBands[float64]).Compute(in[0])
			return []<-chan float64{u, m, l}
		},
		Ref:     func(cfg []int, in [][]float64, o, i int) float64 { return voBB(in[0], cfg[0], o, i) },
		Deg:     [][2]int{{1, 0}, {1, 0}, {1, 0}},
		Ordered: true,
	})

	// BollingerBandWidth(P): c -> width ; w = P-1. (Upper - Lower) / Middle.
	reg(&Ind{
		Name: "BollingerBandWidth", In: "c", NOut: 1,
		Make: func(cfg []int) any {
			x := volatility.NewBollingerBandWidth[float64]()
			x.BollingerBands = volatility.NewBollingerBandsWithPeriod[float64](cfg[0])
			return x
		},
		Idle: func(inst any, cfg []int) int { return inst.(*volatility.BollingerBandWidth[float64]).IdlePeriod() },
		Run: func(inst any, in []<-chan float64) []<-chan float64 {
			return one(inst.(*volatility.BollingerBandWidth[float64]).Compute(in[0]))
		},
		Ref: func(cfg []int, in [][]float64, o, i int) float64 {
			c, p := in[0], cfg[0]
			return (voBB(c, p, 0, i) - voBB(c, p, 2, i)) / voBB(c, p, 1, i)
		},
		Deg:    [][2]int{{0, 0}},
		NonNeg: []bool{true},
	})

	// ChandelierExit(P, multiplier 3): h,l,c -> long, short ; w = P.
	// Doc comment, literally:
	//   Long  = P-Period SMA High - ATR(P) * 3
	//   Short = P-Period SMA Low  + ATR(P) * 3
	// The code (and the usual definition) take the period maximum of the highs
	// and the period minimum of the lows instead of the SMA; they coincide for
	// P = 1 only. Confirmed with vdev: with rMax(h)/rMin(l) in place of the SMAs
	// C01 holds for P=2 dn<=2 and P=3 dn=1 (on the tree without the MovingMax/
	// MovingMin filler fix: on every path whose inputs are all non-zero)
	// -> the doc comment is the defect.
	// P=2, h=(-4094,-4094,-4096), l=-4096, c=0: documented long -4095-3*ATR, code -4094-3*ATR.
	reg(&Ind{
		Name: "ChandelierExit", In: "hlc", NOut: 2,
		Make: func(cfg []int) any {
			x := volatility.NewChandelierExit[float64]()
			x.Period = cfg[0]
			return x
		},
		Idle: func(inst any, cfg []int) int { return inst.(*volatility.ChandelierExit[float64]).IdlePeriod() },
		Run: func(inst any, in []<-chan float64) []<-chan float64 {
			a, b := inst.(*volatility.ChandelierExit[float64]).Compute(in[0], in[1], in[2])
			return []<-chan float64{a, b}
		},
		Ref: func(cfg []int, in [][]float64, o, i int) float64 {
			h, l, c, p := in[0], in[1], in[2], cfg[0]
			atr3 := voATR(h, l, c, p, i) * volatility.DefaultChandelierExitMultiplier
			if o == 0 {
				return rSMA(h, p, i) - atr3
			}
			return rSMA(l, p, i) + atr3
		},
		Deg: [][2]int{{1, 0}, {1, 0}},
		KF: func(cfg []int, n, o, k int) string {
			if cfg[0] > 1 { // SMA_1 = max_1 = min_1
				return "KF-C01-chandelier-doc-says-sma"
			}
			return ""
		},
	})

	// DonchianChannel(P): c -> upper, middle, lower ; w = P-1.
	//   Upper = Mmax(period, closings) ; Lower = Mmin(period, closings) ; Middle = (Upper + Lower) / 2
	reg(&Ind{
		Name: "DonchianChannel", In: "c", NOut: 3,
		Make: func(cfg []int) any { return volatility.NewDonchianChannelWithPeriod[float64](cfg[0]) },
		Idle: func(inst any, cfg []int) int { return inst.(*volatility.DonchianChannel[float64]).IdlePeriod() },
		Run: func(inst any, in []<-chan float64) []<-chan float64 {
			u, m, l := inst.(*volatility.DonchianChannel[float64]).Compute(in[0])
			return []<-chan float64{u, m, l}
		},
		Ref: func(cfg []int, in [][]float64, o, i int) float64 {
			c, p := in[0], cfg[0]
			switch o {
			case 0:
				return rMax(c, p, i)
			case 2:
				return rMin(c, p, i)
			}
			return (rMax(c, p, i) + rMin(c, p, i)) / 2
		},
		Deg:     [][2]int{{1, 0}, {1, 0}, {1, 0}},
		Ordered: true,
	})

	// KeltnerChannel(P): h,l,c -> upper, middle, lower ; w = P.
	//   Middle = EMA(period, closings) ; Upper/Lower = Middle +- 2 * ATR(period, highs, lows, closings)
	reg(&Ind{
		Name: "KeltnerChannel", In: "hlc", NOut: 3,
		Make: func(cfg []int) any { return volatility.NewKeltnerChannelWithPeriod[float64](cfg[0]) },
		Idle: func(inst any, cfg []int) int { return inst.(*volatility.KeltnerChannel[float64]).IdlePeriod() },
		Run: func(inst any, in []<-chan float64) []<-chan float64 {
			u, m, l := inst.(*volatility.KeltnerChannel[float64]).Compute(in[0], in[1], in[2])
			return []<-chan float64{u, m, l}
		},
		Ref: func(cfg []int, in [][]float64, o, i int) float64 {
			h, l, c, p := in[0], in[1], in[2], cfg[0]
			mid := rEMA(c, p)[i]
			switch o {
			case 0:
				return mid + 2*voATR(h, l, c, p, i)
			case 2:
				return mid - 2*voATR(h, l, c, p, i)
			}
			return mid
		},
		Deg:     [][2]int{{1, 0}, {1, 0}, {1, 0}},
		Ordered: true,
	})

	// MovingStd(P): x -> std ; w = P-1. Std = Sqrt(1/Period * Sum(Pow(value - sma, 2))).
	reg(&Ind{
		Name: "MovingStd", In: "x", NOut: 1,
		Make: func(cfg []int) any { return volatility.NewMovingStdWithPeriod[float64](cfg[0]) },
		Idle: func(inst any, cfg []int) int { return inst.(*volatility.MovingStd[float64]).IdlePeriod() },
		Run: func(inst any, in []<-chan float64) []<-chan float64 {
			return one(inst.(*volatility.MovingStd[float64]).Compute(in[0]))
		},
		Ref:    func(cfg []int, in [][]float64, o, i int) float64 { return voStd(in[0], cfg[0], i) },
		Deg:    [][2]int{{1, 0}},
		NonNeg: []bool{true},
	})

	// PercentB(P): c -> %B ; w = P-1. %B = (Close - Lower Band) / (Upper Band - Lower Band).
	reg(&Ind{
		Name: "PercentB", In: "c", NOut: 1,
		Make: func(cfg []int) any { return volatility.NewPercentBWithPeriod[float64](cfg[0]) },
		Idle: func(inst any, cfg []int) int { return inst.(*volatility.PercentB[float64]).IdlePeriod() },
		Run: func(inst any, in []<-chan float64) []<-chan float64 {
			return one(inst.(*volatility.PercentB[float64]).Compute(in[0]))
		},
		Ref: func(cfg []int, in [][]float64, o, i int) float64 {
			c, p := in[0], cfg[0]
			lo := voBB(c, p, 2, i)
			return (c[i] - lo) / (voBB(c, p, 0, i) - lo)
		},
		Deg: [][2]int{{0, 0}},
	})

	// Po(P): h,l,c -> po ; w = 2P-2 (P >= 2: for P = 1 the regression denominator is 0).
	//   PL = Min(period, (high + MLS(period, x, high)))
	//   PH = Max(period, (low + MLS(period, x, low)))
	//   PO = 100 * (Closing - PL) / (PH - PL)
	// "MLS(period, x, y)" is read (Appendix A) as the slope m of the least-squares
	// line over the window, x = 1,2,... counting the inputs.
	reg(&Ind{
		Name: "Po", In: "hlc", NOut: 1,
		Make: func(cfg []int) any { return volatility.NewPoWithPeriod[float64](cfg[0]) },
		Idle: func(inst any, cfg []int) int { return inst.(*volatility.Po[float64]).IdlePeriod() },
		Run: func(inst any, in []<-chan float64) []<-chan float64 {
			return one(inst.(*volatility.Po[float64]).Compute(in[0], in[1], in[2]))
		},
		Ref: func(cfg []int, in [][]float64, o, i int) float64 {
			h, l, c, p := in[0], in[1], in[2], cfg[0]
			pl := voMinf(p, i, func(j int) float64 { return h[j] + voSlope(h, p, j) })
			ph := voMaxf(p, i, func(j int) float64 { return l[j] + voSlope(l, p, j) })
			return 100 * (c[i] - pl) / (ph - pl)
		},
		Deg: [][2]int{{0, 0}},
	})

	// SuperTrend(ma = SMA_P, multiplier 2.5): h,l,c -> st ; w = ma.w + 1 = P.
	// cfg[0] is the period of the SMA used for the ATR (NewSuperTrendWithMa; the
	// ATR doc says "by default, SMA is used"; NewSuperTrendWithPeriod would put a
	// HMA there). Ref is the doc's recursive definition with Appendix A's
	// "initial trend down". The doc comment is silent / ambiguous on two points;
	// the reading used here (both switches below) is:
	//   * voSTFirstLower: the doc ties the trend to the band the SuperTrend is on
	//     ("UpTrend = SuperTrend == FinalUpperBand"), so "initial trend down" means
	//     the first SuperTrend IS the (basic = final) lower band. The other
	//     reading (apply the down-trend rule "Close >= FLB ? FLB : FUB" at the
	//     first position too) differs from the code whenever the first close is
	//     below the first lower band (P=1: h=l=0, c=(1638,-4096): doc' 4095, code -4095).
	//   * voSTEq=false: "SuperTrend == FinalUpperBand" means "the upper band was
	//     selected", not numeric equality; the two differ only on exact ties
	//     FinalUpperBand == FinalLowerBand (e.g. ATR = 0).
	// With (true,false) every C01 case P<=3, dn<=3 holds.
	const voSTFirstLower, voSTEq = true, false
	reg(&Ind{
		Name: "SuperTrend", In: "hlc", NOut: 1,
		Make: func(cfg []int) any {
			return volatility.NewSuperTrendWithMa[float64](
				trend.NewSmaWithPeriod[float64](cfg[0]),
				volatility.DefaultSuperTrendMultiplier,
			)
		},
		Idle: func(inst any, cfg []int) int { return inst.(*volatility.SuperTrend[float64]).IdlePeriod() },
		Run: func(inst any, in []<-chan float64) []<-chan float64 {
			return one(inst.(*volatility.SuperTrend[float64]).Compute(in[0], in[1], in[2]))
		},
		Ref: func(cfg []int, in [][]float64, o, i int) float64 {
			h, l, c, p := in[0], in[1], in[2], cfg[0]
			w := p
			fub, flb, st := 0.0, 0.0, 0.0
			up := false
			for j := w; j <= i; j++ {
				med := (h[j] + l[j]) / 2
				a := volatility.DefaultSuperTrendMultiplier * voATR(h, l, c, p, j)
				bu, bl := med+a, med-a
				if j == w {
					fub, flb = bu, bl
				} else {
					if bu < fub || c[j-1] > fub {
						fub = bu
					}
					if bl > flb || c[j-1] < flb {
						flb = bl
					}
				}
				if j == w && voSTFirstLower {
					st, up = flb, false
				} else if up {
					if c[j] <= fub {
						st, up = fub, true
					} else {
						st, up = flb, false
					}
				} else {
					if c[j] >= flb {
						st, up = flb, false
					} else {
						st, up = fub, true
					}
				}
				if voSTEq {
					up = st == fub
				}
			}
			return st
		},
		Deg: [][2]int{{1, 0}},
	})

	// UlcerIndex(P): c -> ui ; w = 2P-2.
	//   High Closings = Max(period, Closings)
	//   Percentage Drawdown = 100 * ((Closings - High Closings) / High Closings)
	//   Squared Average = Sma(period, Percent Drawdown * Percent Drawdown)
	//   Ulcer Index = Sqrt(Squared Average)
	reg(&Ind{
		Name: "UlcerIndex", In: "c", NOut: 1,
		Make: func(cfg []int) any {
			x := volatility.NewUlcerIndex[float64]()
			x.Period = cfg[0]
			return x
		},
		Idle: func(inst any, cfg []int) int { return inst.(*volatility.UlcerIndex[float64]).IdlePeriod() },
		Run: func(inst any, in []<-chan float64) []<-chan float64 {
			return one(inst.(*volatility.UlcerIndex[float64]).Compute(in[0]))
		},
		Ref: func(cfg []int, in [][]float64, o, i int) float64 {
			c, p := in[0], cfg[0]
			sq := voSMAf(p, i, func(j int) float64 {
				m := rMax(c, p, j)
				pd := 100 * ((c[j] - m) / m)
				return pd * pd
			})
			return math.Sqrt(sq)
		},
		Deg:    [][2]int{{0, 0}},
		NonNeg: []bool{true},
		// The code squares AFTER averaging: Sqrt(Pow(Sma(pd), 2)) = |SMA_P(pd)|
		// instead of Sqrt(SMA_P(pd*pd)); equal for P = 1 only. Confirmed: with
		// |SMA_P(pd)| as Ref, C01 holds (P=2 dn<=2, P=3 dn=1).
		// c = (1,2,1), P=2: documented sqrt(1250) = 35.36, code 25.
		KF: func(cfg []int, n, o, k int) string {
			if cfg[0] > 1 {
				return "KF-C01-ulcerindex-not-rms"
			}
			return ""
		},
	})
}
