package h

import (
	"github.com/cinar/indicator/v2/asset"
	"github.com/cinar/indicator/v2/momentum"
	"github.com/cinar/indicator/v2/strategy"
	smomentum "github.com/cinar/indicator/v2/strategy/momentum"
	strend "github.com/cinar/indicator/v2/strategy/trend"
	"github.com/cinar/indicator/v2/trend"
)

// Worked strategy entries. Rule restates the DOC COMMENT of the strategy: which
// snapshot fields feed which indicator, and the decision on the indicator values.
// The indicator itself is the REAL one (its own correctness is C01's business).

func init() {
	// MACD strategy (doc): closing prices -> MACD(P1,P2,P3);
	// Buy when macd > signal and macd < 0 ; Sell when signal > macd and macd > 0.
	regS(&Strat{
		Name: "Macd",
		Make: func(cfg []int, dflt bool) strategy.Strategy {
			if dflt {
				return strend.NewMacdStrategy()
			}
			return strend.NewMacdStrategyWith(cfg[0], cfg[1], cfg[2])
		},
		Warm: func(s strategy.Strategy) int { return s.(*strend.MacdStrategy).Macd.IdlePeriod() },
		Rule: func(s strategy.Strategy, snaps []*asset.Snapshot) ([]strategy.Action, []bool) {
			m := s.(*strend.MacdStrategy).Macd
			ind := trend.NewMacdWithPeriod[float64](m.Ema1.Period, m.Ema2.Period, m.Ema3.Period)
			w := ind.IdlePeriod()
			a, b := ind.Compute(Src(fClose(snaps), 0))
			outs := Collect(a, b)
			n := len(snaps)
			macd, signal := pad(outs[0], w, n), pad(outs[1], w, n)
			return decide(n, w, func(i int) (strategy.Action, bool) {
				exempt := macd[i] == signal[i] || macd[i] == 0
				if macd[i] > signal[i] && macd[i] < 0 {
					return strategy.Buy, exempt
				}
				if signal[i] > macd[i] && macd[i] > 0 {
					return strategy.Sell, exempt
				}
				return strategy.Hold, exempt
			})
		},
		Cols: func(s strategy.Strategy, snaps []*asset.Snapshot) map[string][]float64 {
			m := s.(*strend.MacdStrategy).Macd
			ind := trend.NewMacdWithPeriod[float64](m.Ema1.Period, m.Ema2.Period, m.Ema3.Period)
			a, b := ind.Compute(Src(fClose(snaps), 0))
			outs := Collect(a, b)
			return map[string][]float64{"MACD": pad(outs[0], ind.IdlePeriod(), len(snaps)), "Signal": pad(outs[1], ind.IdlePeriod(), len(snaps))}
		},
	})
	// RSI strategy (doc): closing prices -> RSI(P); Buy when rsi <= BuyAt, Sell when rsi >= SellAt.
	regS(&Strat{
		Name: "Rsi",
		Make: func(cfg []int, dflt bool) strategy.Strategy {
			s := smomentum.NewRsiStrategy()
			if !dflt {
				s.Rsi.Rma.Period = cfg[0]
			}
			return s
		},
		Warm: func(s strategy.Strategy) int { return s.(*smomentum.RsiStrategy).Rsi.IdlePeriod() },
		Rule: func(s strategy.Strategy, snaps []*asset.Snapshot) ([]strategy.Action, []bool) {
			rs := s.(*smomentum.RsiStrategy)
			ind := momentum.NewRsiWithPeriod[float64](rs.Rsi.Rma.Period)
			w := ind.IdlePeriod()
			n := len(snaps)
			rsi := pad(Collect1(ind.Compute(Src(fClose(snaps), 0))), w, n)
			return decide(n, w, func(i int) (strategy.Action, bool) {
				if rsi[i] <= rs.BuyAt {
					return strategy.Buy, false
				}
				if rsi[i] >= rs.SellAt {
					return strategy.Sell, false
				}
				return strategy.Hold, false
			})
		},
	})
}
