package h

import (
	"math"
	"sync"

	"github.com/cinar/indicator/v2/helper"
	"verif/harness/vrt"
)

// Hlp is one stream helper with its slice model (C16).
type Hlp[T helper.Number] struct {
	Name string
	NIn  int
	// Run applies the real helper to the input channels with parameters p, q.
	Run func(in []<-chan T, p, q int) []<-chan T
	// Model is the slice counterpart.
	Model func(in [][]T, p, q int) [][]T
	// Float only (division / sqrt)
	FloatOnly bool
	// Valid says whether (p, q, lengths) is inside the helper's documented domain.
	Valid func(lens []int, p, q int) bool
}

func one1[T any](c <-chan T) []<-chan T { return []<-chan T{c} }
func m1[T any](s []T) [][]T             { return [][]T{s} }

func zipModel[T helper.Number](in [][]T, f func(a, b T) T) [][]T {
	n := imin(len(in[0]), len(in[1]))
	out := make([]T, 0, n)
	for i := 0; i < n; i++ {
		out = append(out, f(in[0][i], in[1][i]))
	}
	return m1(out)
}

func mapModel[T helper.Number](in []T, f func(a T) T) [][]T {
	out := make([]T, 0, len(in))
	for _, x := range in {
		out = append(out, f(x))
	}
	return m1(out)
}

func hlpTable[T helper.Number]() []*Hlp[T] {
	sgn := func(n T) T {
		if n > 0 {
			return 1
		} else if n < 0 {
			return -1
		}
		return 0
	}
	return []*Hlp[T]{
		{Name: "Map", NIn: 1,
			Run: func(in []<-chan T, p, q int) []<-chan T {
				return one1(helper.Map(in[0], func(x T) T { return x*2 + T(p) }))
			},
			Model: func(in [][]T, p, q int) [][]T { return mapModel(in[0], func(x T) T { return x*2 + T(p) }) }},
		{Name: "Apply", NIn: 1,
			Run: func(in []<-chan T, p, q int) []<-chan T {
				return one1(helper.Apply(in[0], func(x T) T { return x - T(p) }))
			},
			Model: func(in [][]T, p, q int) [][]T { return mapModel(in[0], func(x T) T { return x - T(p) }) }},
		{Name: "MapWithPrevious", NIn: 1,
			Run: func(in []<-chan T, p, q int) []<-chan T {
				return one1(helper.MapWithPrevious(in[0], func(prev, x T) T { return prev + x }, T(p)))
			},
			Model: func(in [][]T, p, q int) [][]T {
				acc := T(p)
				out := []T{}
				for _, x := range in[0] {
					acc = acc + x
					out = append(out, acc)
				}
				return m1(out)
			}},
		{Name: "Filter", NIn: 1,
			Run: func(in []<-chan T, p, q int) []<-chan T {
				return one1(helper.Filter(in[0], func(x T) bool { return x > T(p) }))
			},
			Model: func(in [][]T, p, q int) [][]T {
				out := []T{}
				for _, x := range in[0] {
					if x > T(p) {
						out = append(out, x)
					}
				}
				return m1(out)
			}},
		{Name: "Skip", NIn: 1,
			Run:   func(in []<-chan T, p, q int) []<-chan T { return one1(helper.Skip(in[0], p)) },
			Model: func(in [][]T, p, q int) [][]T { return m1(in[0][imin(p, len(in[0])):]) }},
		{Name: "Head", NIn: 1,
			Run: func(in []<-chan T, p, q int) []<-chan T {
				h := helper.Head(in[0], p)
				// Head leaves the rest of the stream to the caller: consume it here
				go helper.Drain(in[0])
				return one1(h)
			},
			Model: func(in [][]T, p, q int) [][]T { return m1(in[0][:imin(p, len(in[0]))]) },
			// the concurrent Drain above competes with Head for values unless Head has finished:
			// only the unambiguous uses are checked (p >= n or p == 0 handled by HeadThenRest)
			Valid: func(lens []int, p, q int) bool { return false }},
		{Name: "HeadThenRest", NIn: 1,
			// Head(c, p) followed by reading the rest from c afterwards (how Ema uses it)
			Run: func(in []<-chan T, p, q int) []<-chan T {
				out := make(chan T)
				go func() {
					defer close(out)
					for v := range helper.Head(in[0], p) {
						out <- v
					}
					for v := range in[0] {
						out <- v
					}
				}()
				return one1(out)
			},
			Model: func(in [][]T, p, q int) [][]T { return m1(in[0]) }},
		{Name: "First", NIn: 1,
			Run:   func(in []<-chan T, p, q int) []<-chan T { return one1(helper.First(in[0], p)) },
			Model: func(in [][]T, p, q int) [][]T { return m1(in[0][:imin(p, len(in[0]))]) }},
		{Name: "Last", NIn: 1,
			Run:   func(in []<-chan T, p, q int) []<-chan T { return one1(helper.Last(in[0], p)) },
			Model: func(in [][]T, p, q int) [][]T { return m1(in[0][imax(0, len(in[0])-p):]) },
			Valid: func(lens []int, p, q int) bool { return p >= 1 }},
		{Name: "Shift", NIn: 1,
			Run: func(in []<-chan T, p, q int) []<-chan T { return one1(helper.Shift(in[0], p, T(q))) },
			Model: func(in [][]T, p, q int) [][]T {
				out := []T{}
				for i := 0; i < p; i++ {
					out = append(out, T(q))
				}
				return m1(append(out, in[0]...))
			}},
		{Name: "Buffered", NIn: 1,
			Run:   func(in []<-chan T, p, q int) []<-chan T { return one1(helper.Buffered(in[0], p)) },
			Model: func(in [][]T, p, q int) [][]T { return m1(in[0]) }},
		{Name: "Pipe", NIn: 1,
			Run: func(in []<-chan T, p, q int) []<-chan T {
				out := make(chan T, p)
				go helper.Pipe(in[0], out)
				return one1[T](out)
			},
			Model: func(in [][]T, p, q int) [][]T { return m1(in[0]) }},
		{Name: "Waitable", NIn: 1,
			Run: func(in []<-chan T, p, q int) []<-chan T {
				wg := &sync.WaitGroup{}
				c := helper.Waitable(wg, in[0])
				out := make(chan T)
				go func() {
					defer close(out)
					for v := range c {
						out <- v
					}
					wg.Wait() // must return once the stream has ended
				}()
				return one1[T](out)
			},
			Model: func(in [][]T, p, q int) [][]T { return m1(in[0]) }},
		{Name: "Duplicate", NIn: 1,
			Run: func(in []<-chan T, p, q int) []<-chan T { return helper.Duplicate(in[0], p) },
			Model: func(in [][]T, p, q int) [][]T {
				out := make([][]T, p)
				for i := range out {
					out[i] = in[0]
				}
				return out
			},
			Valid: func(lens []int, p, q int) bool { return p >= 1 }},
		{Name: "Count", NIn: 1,
			Run: func(in []<-chan T, p, q int) []<-chan T { return one1(helper.Count(T(p), in[0])) },
			Model: func(in [][]T, p, q int) [][]T {
				out := []T{}
				for i := range in[0] {
					out = append(out, T(p)+T(i))
				}
				return m1(out)
			}},
		{Name: "Since", NIn: 1,
			Run: func(in []<-chan T, p, q int) []<-chan T { return one1(helper.Since[T, T](in[0])) },
			Model: func(in [][]T, p, q int) [][]T {
				out := []T{}
				cnt := T(0)
				for i, x := range in[0] {
					if i == 0 || x != in[0][i-1] {
						cnt = 0
					} else {
						cnt++
					}
					out = append(out, cnt)
				}
				return m1(out)
			}},
		{Name: "Change", NIn: 1,
			Run: func(in []<-chan T, p, q int) []<-chan T { return one1(helper.Change(in[0], p)) },
			Model: func(in [][]T, p, q int) [][]T {
				out := []T{}
				for i := 0; i+p < len(in[0]); i++ {
					out = append(out, in[0][i+p]-in[0][i])
				}
				return m1(out)
			}},
		{Name: "ChangeRatio", NIn: 1, FloatOnly: true,
			Run: func(in []<-chan T, p, q int) []<-chan T { return one1(helper.ChangeRatio(in[0], p)) },
			Model: func(in [][]T, p, q int) [][]T {
				out := []T{}
				for i := 0; i+p < len(in[0]); i++ {
					out = append(out, (in[0][i+p]-in[0][i])/in[0][i])
				}
				return m1(out)
			}},
		{Name: "ChangePercent", NIn: 1, FloatOnly: true,
			Run: func(in []<-chan T, p, q int) []<-chan T { return one1(helper.ChangePercent(in[0], p)) },
			Model: func(in [][]T, p, q int) [][]T {
				out := []T{}
				for i := 0; i+p < len(in[0]); i++ {
					out = append(out, (in[0][i+p]-in[0][i])/in[0][i]*100)
				}
				return m1(out)
			}},
		{Name: "Operate", NIn: 2,
			Run: func(in []<-chan T, p, q int) []<-chan T {
				return one1(helper.Operate(in[0], in[1], func(a, b T) T { return a*2 - b }))
			},
			Model: func(in [][]T, p, q int) [][]T { return zipModel(in, func(a, b T) T { return a*2 - b }) }},
		{Name: "Operate3", NIn: 3,
			Run: func(in []<-chan T, p, q int) []<-chan T {
				return one1(helper.Operate3(in[0], in[1], in[2], func(a, b, c T) T { return a + b*2 - c }))
			},
			Model: func(in [][]T, p, q int) [][]T {
				n := imin(len(in[0]), imin(len(in[1]), len(in[2])))
				out := []T{}
				for i := 0; i < n; i++ {
					out = append(out, in[0][i]+in[1][i]*2-in[2][i])
				}
				return m1(out)
			}},
		{Name: "Add", NIn: 2,
			Run:   func(in []<-chan T, p, q int) []<-chan T { return one1(helper.Add(in[0], in[1])) },
			Model: func(in [][]T, p, q int) [][]T { return zipModel(in, func(a, b T) T { return a + b }) }},
		{Name: "Subtract", NIn: 2,
			Run:   func(in []<-chan T, p, q int) []<-chan T { return one1(helper.Subtract(in[0], in[1])) },
			Model: func(in [][]T, p, q int) [][]T { return zipModel(in, func(a, b T) T { return a - b }) }},
		{Name: "Multiply", NIn: 2,
			Run:   func(in []<-chan T, p, q int) []<-chan T { return one1(helper.Multiply(in[0], in[1])) },
			Model: func(in [][]T, p, q int) [][]T { return zipModel(in, func(a, b T) T { return a * b }) }},
		{Name: "Divide", NIn: 2, FloatOnly: true,
			Run:   func(in []<-chan T, p, q int) []<-chan T { return one1(helper.Divide(in[0], in[1])) },
			Model: func(in [][]T, p, q int) [][]T { return zipModel(in, func(a, b T) T { return a / b }) }},
		{Name: "IncrementBy", NIn: 1,
			Run:   func(in []<-chan T, p, q int) []<-chan T { return one1(helper.IncrementBy(in[0], T(p))) },
			Model: func(in [][]T, p, q int) [][]T { return mapModel(in[0], func(x T) T { return x + T(p) }) }},
		{Name: "DecrementBy", NIn: 1,
			Run:   func(in []<-chan T, p, q int) []<-chan T { return one1(helper.DecrementBy(in[0], T(p))) },
			Model: func(in [][]T, p, q int) [][]T { return mapModel(in[0], func(x T) T { return x - T(p) }) }},
		{Name: "MultiplyBy", NIn: 1,
			Run:   func(in []<-chan T, p, q int) []<-chan T { return one1(helper.MultiplyBy(in[0], T(p))) },
			Model: func(in [][]T, p, q int) [][]T { return mapModel(in[0], func(x T) T { return x * T(p) }) }},
		{Name: "DivideBy", NIn: 1, FloatOnly: true,
			Run:   func(in []<-chan T, p, q int) []<-chan T { return one1(helper.DivideBy(in[0], T(p))) },
			Model: func(in [][]T, p, q int) [][]T { return mapModel(in[0], func(x T) T { return x / T(p) }) },
			Valid: func(lens []int, p, q int) bool { return p != 0 }},
		{Name: "Abs", NIn: 1, FloatOnly: true,
			Run: func(in []<-chan T, p, q int) []<-chan T { return one1(helper.Abs(in[0])) },
			Model: func(in [][]T, p, q int) [][]T {
				return mapModel(in[0], func(x T) T {
					if x < 0 {
						return -x
					}
					return x
				})
			}},
		{Name: "Sign", NIn: 1,
			Run:   func(in []<-chan T, p, q int) []<-chan T { return one1(helper.Sign(in[0])) },
			Model: func(in [][]T, p, q int) [][]T { return mapModel(in[0], sgn) }},
		{Name: "KeepPositives", NIn: 1,
			Run: func(in []<-chan T, p, q int) []<-chan T { return one1(helper.KeepPositives(in[0])) },
			Model: func(in [][]T, p, q int) [][]T {
				return mapModel(in[0], func(x T) T {
					if x > 0 {
						return x
					}
					return 0
				})
			}},
		{Name: "KeepNegatives", NIn: 1,
			Run: func(in []<-chan T, p, q int) []<-chan T { return one1(helper.KeepNegatives(in[0])) },
			Model: func(in [][]T, p, q int) [][]T {
				return mapModel(in[0], func(x T) T {
					if x < 0 {
						return x
					}
					return 0
				})
			}},
		{Name: "Pow", NIn: 1, FloatOnly: true,
			Run: func(in []<-chan T, p, q int) []<-chan T { return one1(helper.Pow(in[0], T(p))) },
			Model: func(in [][]T, p, q int) [][]T {
				return mapModel(in[0], func(x T) T {
					r := T(1)
					for i := 0; i < p; i++ {
						r *= x
					}
					return r
				})
			},
			Valid: func(lens []int, p, q int) bool { return p >= 0 && p <= 3 }},
		{Name: "Sqrt", NIn: 1, FloatOnly: true,
			Run: func(in []<-chan T, p, q int) []<-chan T { return one1(helper.Sqrt(in[0])) },
			Model: func(in [][]T, p, q int) [][]T {
				return mapModel(in[0], func(x T) T { return T(math.Sqrt(float64(x))) })
			}},
		{Name: "Echo", NIn: 1,
			Run: func(in []<-chan T, p, q int) []<-chan T { return one1(helper.Echo(in[0], p, q)) },
			Model: func(in [][]T, p, q int) [][]T {
				out := append([]T{}, in[0]...)
				n := len(in[0])
				for i := 0; i < q; i++ {
					out = append(out, in[0][n-p:]...)
				}
				return m1(out)
			},
			Valid: func(lens []int, p, q int) bool { return p >= 1 && lens[0] >= p && q >= 0 }},
		{Name: "Seq", NIn: 0,
			Run: func(in []<-chan T, p, q int) []<-chan T { return one1(helper.Seq(T(p), T(q), T(2))) },
			Model: func(in [][]T, p, q int) [][]T {
				out := []T{}
				for i := T(p); i < T(q); i += 2 {
					out = append(out, i)
				}
				return m1(out)
			}},
		{Name: "SyncPeriod", NIn: 1,
			Run:   func(in []<-chan T, p, q int) []<-chan T { return one1(helper.SyncPeriod(p, q, in[0])) },
			Model: func(in [][]T, p, q int) [][]T { return m1(in[0][imin(imax(0, p-q), len(in[0])):]) }},
	}
}

func runC16[T helper.Number](name string, n1, n2, n3, p, q, capacity int) {
	var hl *Hlp[T]
	for _, x := range hlpTable[T]() {
		if x.Name == name {
			hl = x
		}
	}
	if hl == nil {
		panic("unknown helper " + name)
	}
	lens := []int{n1, n2, n3}[:hl.NIn]
	if hl.Valid != nil && !hl.Valid(lens, p, q) {
		vrt.Reach("outside-domain")
		return
	}
	in := make([][]T, hl.NIn)
	cs := make([]<-chan T, hl.NIn)
	for j := range in {
		in[j] = make([]T, lens[j])
		for i := range in[j] {
			in[j][i] = vrt.Num[T](vrt.Name("x", j), i)
		}
		cs[j] = Src(in[j], capacity)
	}
	got := Collect(hl.Run(cs, p, q)...)
	want := hl.Model(in, p, q)
	vrt.Assert("nout", len(got) == len(want))
	for o := range want {
		vrt.Assert(vrt.Name("len", o), len(got[o]) == len(want[o]))
		for k := range want[o] {
			if k < len(got[o]) {
				vrt.AssertEqAt(vrt.Name("elem", o), k, got[o][k], want[o][k])
			}
		}
	}
	vrt.Reach("end")
}

// H_C16F: stream helper vs slice model, float64 elements (exact reals).
func H_C16F(name string, n1, n2, n3, p, q, capacity int) {
	runC16[float64](name, n1, n2, n3, p, q, capacity)
}

// H_C16I: stream helper vs slice model, int elements (64-bit bit-vectors, wrap-around semantics).
func H_C16I(name string, n1, n2, n3, p, q, capacity int) {
	runC16[int](name, n1, n2, n3, p, q, capacity)
}
