package h

import (
	"github.com/cinar/indicator/v2/asset"
	"github.com/cinar/indicator/v2/momentum"
	"github.com/cinar/indicator/v2/strategy"
	strend "github.com/cinar/indicator/v2/strategy/trend"
	"github.com/cinar/indicator/v2/trend"
)

// Strategy table entries, group trend-B: Kdj, Qstick, Smma, Trima,
// TripleMovingAverageCrossover, Trix, Tsi, Vwma, WeightedClose.
//
// Every Rule restates the strategy's DOC COMMENT over the values of the REAL
// indicator (fresh instance, same periods) on the DOCUMENTED snapshot fields.
// Where the doc says "crossing above/below" another line, Appendix B reads it
// as the level comparison (a above b => Buy, a below b => Sell), ties exempt;
// only Qstick is read as a (previous, current) zero crossing.

// sbAboveBelow: Buy when a > b, Sell when a < b, tie exempt.
func sbAboveBelow(a, b float64) (strategy.Action, bool) {
	if a > b {
		return strategy.Buy, a == b
	}
	if a < b {
		return strategy.Sell, a == b
	}
	return strategy.Hold, true
}

func sbEmaPeriod(m trend.Ma[float64]) int { return m.(*trend.Ema[float64]).Period }

// sbKdj: fresh KDJ with the periods of the strategy's instance.
func sbKdj(k *trend.Kdj[float64]) *trend.Kdj[float64] {
	ind := trend.NewKdj[float64]()
	ind.MovingMax.Period = k.MovingMax.Period
	ind.MovingMin.Period = k.MovingMin.Period
	ind.Sma1.Period = k.Sma1.Period
	ind.Sma2.Period = k.Sma2.Period
	return ind
}

// sbKdjVals: K, D, J of the documented fields (high, low, close), aligned with the snapshots.
func sbKdjVals(k *trend.Kdj[float64], snaps []*asset.Snapshot) (kk, dd, jj []float64, w int) {
	ind := sbKdj(k)
	w = ind.IdlePeriod()
	n := len(snaps)
	a, b, c := ind.Compute(Src(fHigh(snaps), 0), Src(fLow(snaps), 0), Src(fClose(snaps), 0))
	outs := Collect(a, b, c)
	return pad(outs[0], w, n), pad(outs[1], w, n), pad(outs[2], w, n), w
}

func sbSmmaVals(s *strend.SmmaStrategy, snaps []*asset.Snapshot) (short, long []float64, w int) {
	si := trend.NewSmmaWithPeriod[float64](s.ShortSmma.Period)
	li := trend.NewSmmaWithPeriod[float64](s.LongSmma.Period)
	n := len(snaps)
	w = imax(si.IdlePeriod(), li.IdlePeriod())
	short = pad(Collect1(si.Compute(Src(fClose(snaps), 0))), si.IdlePeriod(), n)
	long = pad(Collect1(li.Compute(Src(fClose(snaps), 0))), li.IdlePeriod(), n)
	return
}

func sbTrimaVals(s *strend.TrimaStrategy, snaps []*asset.Snapshot) (short, long []float64, w int) {
	si := trend.NewTrima[float64]()
	si.Period = s.Short.Period
	li := trend.NewTrima[float64]()
	li.Period = s.Long.Period
	n := len(snaps)
	w = imax(si.IdlePeriod(), li.IdlePeriod())
	short = pad(Collect1(si.Compute(Src(fClose(snaps), 0))), si.IdlePeriod(), n)
	long = pad(Collect1(li.Compute(Src(fClose(snaps), 0))), li.IdlePeriod(), n)
	return
}

func sbTmacVals(s *strend.TripleMovingAverageCrossoverStrategy, snaps []*asset.Snapshot) (f, m, sl []float64, w int) {
	fi := trend.NewEmaWithPeriod[float64](s.FastEma.Period)
	mi := trend.NewEmaWithPeriod[float64](s.MediumEma.Period)
	li := trend.NewEmaWithPeriod[float64](s.SlowEma.Period)
	n := len(snaps)
	w = imax(imax(fi.IdlePeriod(), mi.IdlePeriod()), li.IdlePeriod())
	f = pad(Collect1(fi.Compute(Src(fClose(snaps), 0))), fi.IdlePeriod(), n)
	m = pad(Collect1(mi.Compute(Src(fClose(snaps), 0))), mi.IdlePeriod(), n)
	sl = pad(Collect1(li.Compute(Src(fClose(snaps), 0))), li.IdlePeriod(), n)
	return
}

func sbTrixVals(s *strend.TrixStrategy, snaps []*asset.Snapshot) ([]float64, int) {
	ind := trend.NewTrix[float64]()
	ind.Period = s.Trix.Period
	w := ind.IdlePeriod()
	return pad(Collect1(ind.Compute(Src(fClose(snaps), 0))), w, len(snaps)), w
}

// sbTsiVals: TSI of the closings and its signal line Ema(signal, TSI).
func sbTsiVals(s *strend.TsiStrategy, snaps []*asset.Snapshot) (tsi, signal []float64, w int) {
	ind := trend.NewTsiWith[float64](sbEmaPeriod(s.Tsi.FirstSmoothing), sbEmaPeriod(s.Tsi.SecondSmoothing))
	sig := trend.NewEmaWithPeriod[float64](sbEmaPeriod(s.Signal))
	n := len(snaps)
	tw := ind.IdlePeriod()
	w = tw + sig.IdlePeriod()
	raw := Collect1(ind.Compute(Src(fClose(snaps), 0)))
	tsi = pad(raw, tw, n)
	signal = pad(Collect1(sig.Compute(Src(raw, 0))), w, n)
	return
}

func sbVwmaVals(s *strend.VwmaStrategy, snaps []*asset.Snapshot) (vwma, sma []float64, w int) {
	vi := trend.NewVwma[float64]()
	vi.Period = s.Vwma.Period
	si := trend.NewSmaWithPeriod[float64](s.Sma.Period)
	n := len(snaps)
	w = imax(vi.IdlePeriod(), si.IdlePeriod())
	vwma = pad(Collect1(vi.Compute(Src(fClose(snaps), 0), Src(fVol(snaps), 0))), vi.IdlePeriod(), n)
	sma = pad(Collect1(si.Compute(Src(fClose(snaps), 0))), si.IdlePeriod(), n)
	return
}

// sbWcVals: weighted close of (high, low, close) and its moving average
// (the strategy's Ma is an SMA built by the constructor; its period is IdlePeriod()+1).
func sbWcVals(s *strend.WeightedCloseStrategy, snaps []*asset.Snapshot) (wc, ma []float64, w int) {
	wi := trend.NewWeightedClose[float64]()
	mi := trend.NewSmaWithPeriod[float64](s.Ma.(*trend.Sma[float64]).Period)
	n := len(snaps)
	w = wi.IdlePeriod() + mi.IdlePeriod()
	raw := Collect1(wi.Compute(Src(fHigh(snaps), 0), Src(fLow(snaps), 0), Src(fClose(snaps), 0)))
	wc = pad(raw, wi.IdlePeriod(), n)
	ma = pad(Collect1(mi.Compute(Src(raw, 0))), w, n)
	return
}

func init() {
	// KDJ strategy (doc): "BUY when j crosses above both k and d; SELL when j crosses
	// below both k and d"; KDJ doc: RSV from closing, Min(Low), Max(High).
	// cfg: [0] = min/max window (rPeriod), [1] = Sma1 (kPeriod), [2] = Sma2 (dPeriod).
	// J - K = 2(K - D) and J - D = 3(K - D): the rule is the sign of K - D; with
	// Sma2.Period == 1 (D == K == J) every position is a tie, so use cfg[2] >= 2 in C06.
	regS(&Strat{
		Name: "Kdj",
		Make: func(cfg []int, dflt bool) strategy.Strategy {
			s := strend.NewKdjStrategy()
			if !dflt {
				s.Kdj.MovingMax.Period = cfg[0]
				s.Kdj.MovingMin.Period = cfg[0]
				s.Kdj.Sma1.Period = cfg[1]
				s.Kdj.Sma2.Period = cfg[2]
			}
			return s
		},
		Warm: func(s strategy.Strategy) int { return s.(*strend.KdjStrategy).Kdj.IdlePeriod() },
		Rule: func(s strategy.Strategy, snaps []*asset.Snapshot) ([]strategy.Action, []bool) {
			k, d, j, w := sbKdjVals(s.(*strend.KdjStrategy).Kdj, snaps)
			return decide(len(snaps), w, func(i int) (strategy.Action, bool) {
				exempt := j[i] == k[i] || j[i] == d[i]
				if j[i] > k[i] && j[i] > d[i] {
					return strategy.Buy, exempt
				}
				if j[i] < k[i] && j[i] < d[i] {
					return strategy.Sell, exempt
				}
				return strategy.Hold, exempt
			})
		},
		Cols: func(s strategy.Strategy, snaps []*asset.Snapshot) map[string][]float64 {
			k, d, j, _ := sbKdjVals(s.(*strend.KdjStrategy).Kdj, snaps)
			return map[string][]float64{"K": k, "D": d, "J": j}
		},
		// Report feeds asset.SnapshotsAsHighs(snapshots[2]) as the LOWS of the KDJ
		// (Compute uses SnapshotsAsLows): the K/D/J columns are the KDJ of
		// (high, high, close), not the values the actions were derived from.
		KFCol: func(cfg []int, n int, col string) string {
			if col == "K" || col == "D" || col == "J" {
				return "KF-C14-kdj-report-lows-are-highs"
			}
			return ""
		},
	})

	// Qstick strategy (doc): "A Qstick above zero indicates increasing buying pressure,
	// below zero increasing selling pressure"; QS = SMA(Closings - Openings).
	// Appendix B reading: a zero CROSSING between the previous and the current value:
	// previous < 0 and current > 0 => Buy; previous > 0 and current < 0 => Sell.
	// The first position with a previous value is Qstick.IdlePeriod()+1 = P (w_s = P).
	// Exempt: previous or current exactly 0.  cfg: [0] = Sma.Period.
	regS(&Strat{
		Name: "Qstick",
		Make: func(cfg []int, dflt bool) strategy.Strategy {
			s := strend.NewQstickStrategy()
			if !dflt {
				s.Qstick.Sma.Period = cfg[0]
			}
			return s
		},
		Warm: func(s strategy.Strategy) int { return s.(*strend.QstickStrategy).Qstick.IdlePeriod() + 1 },
		Rule: func(s strategy.Strategy, snaps []*asset.Snapshot) ([]strategy.Action, []bool) {
			ind := momentum.NewQstick[float64]()
			ind.Sma.Period = s.(*strend.QstickStrategy).Qstick.Sma.Period
			n := len(snaps)
			q := pad(Collect1(ind.Compute(Src(fOpen(snaps), 0), Src(fClose(snaps), 0))), ind.IdlePeriod(), n)
			return decide(n, ind.IdlePeriod()+1, func(i int) (strategy.Action, bool) {
				prev, cur := q[i-1], q[i]
				exempt := prev == 0 || cur == 0
				if prev < 0 && cur > 0 {
					return strategy.Buy, exempt
				}
				if prev > 0 && cur < 0 {
					return strategy.Sell, exempt
				}
				return strategy.Hold, exempt
			})
		},
		Cols: func(s strategy.Strategy, snaps []*asset.Snapshot) map[string][]float64 {
			ind := momentum.NewQstick[float64]()
			ind.Sma.Period = s.(*strend.QstickStrategy).Qstick.Sma.Period
			n := len(snaps)
			q := pad(Collect1(ind.Compute(Src(fOpen(snaps), 0), Src(fClose(snaps), 0))), ind.IdlePeriod(), n)
			return map[string][]float64{"Qstick": q, "Open": fOpen(snaps)}
		},
	})

	// SMMA strategy (doc): "short-term SMMA crossing above the long-term SMMA => bullish,
	// crossing below => bearish"; closings. w_s = max(short,long)-1 (the larger SMMA idle period).
	// cfg: [0] = short period, [1] = long period.
	regS(&Strat{
		Name: "Smma",
		Make: func(cfg []int, dflt bool) strategy.Strategy {
			if dflt {
				return strend.NewSmmaStrategy()
			}
			return strend.NewSmmaStrategyWith(cfg[0], cfg[1])
		},
		Warm: func(s strategy.Strategy) int {
			ss := s.(*strend.SmmaStrategy)
			return imax(ss.ShortSmma.IdlePeriod(), ss.LongSmma.IdlePeriod())
		},
		Rule: func(s strategy.Strategy, snaps []*asset.Snapshot) ([]strategy.Action, []bool) {
			short, long, w := sbSmmaVals(s.(*strend.SmmaStrategy), snaps)
			return decide(len(snaps), w, func(i int) (strategy.Action, bool) { return sbAboveBelow(short[i], long[i]) })
		},
		Cols: func(s strategy.Strategy, snaps []*asset.Snapshot) map[string][]float64 {
			short, long, _ := sbSmmaVals(s.(*strend.SmmaStrategy), snaps)
			// the report names the short / long SMMA columns "MACD" / "Signal"
			return map[string][]float64{"MACD": short, "Signal": long}
		},
		// Compute syncs both SMMA streams to n-max+1 values (first value belongs to
		// position max-1) but then Shifts by commonPeriod = max instead of max-1:
		// n+1 actions whenever n >= max-1, and every decision is emitted one position late.
		KFLen: func(cfg []int, n int) string {
			if n >= imax(cfg[0], cfg[1])-1 {
				return "KF-C05-smma-shift-by-max"
			}
			return ""
		},
		// Consequence for the rule: acts[max-1] is the Shift filler (Hold) and acts[i]
		// for i >= max is the decision of position i-1: every position >= w_s is affected.
		KFRule: func(cfg []int, n, i int) string { return "KF-C06-smma-shift-by-max" },
		// Report: dates/closings/outcomes skip max rows (n-max rows) while the synced
		// SMMA columns carry n-max+1 values and the annotations (n+1 actions, skip max)
		// carry n-max+1 as well: these three columns are one longer than the date column.
		// (For n == max, i.e. H_C14 dn = 1, the date column is empty: the harness's "rows"
		// assertion fails too and has no KF hook.)
		KFCol: func(cfg []int, n int, col string) string {
			if n >= imax(cfg[0], cfg[1]) && (col == "MACD" || col == "Signal" || col == "" || col == "rows") {
				return "KF-C14-smma-column-one-too-long"
			}
			return ""
		},
	})

	// TRIMA strategy (doc): "bullish cross when the short TRIMA moves above the long TRIMA,
	// bearish cross when it moves below"; closings. w_s = idle of the long TRIMA
	// (max of both; the grid keeps short <= long as the field names demand: with
	// Short.Period > Long.Period Compute calls Skip with a negative count and Shifts by the
	// smaller idle period, e.g. (3,1), n = 4 gives 2 actions - outside the documented use).
	// cfg: [0] = Short.Period, [1] = Long.Period.
	regS(&Strat{
		Name: "Trima",
		Make: func(cfg []int, dflt bool) strategy.Strategy {
			s := strend.NewTrimaStrategy()
			if !dflt {
				s.Short.Period = cfg[0]
				s.Long.Period = cfg[1]
			}
			return s
		},
		Warm: func(s strategy.Strategy) int {
			ts := s.(*strend.TrimaStrategy)
			return imax(ts.Short.IdlePeriod(), ts.Long.IdlePeriod())
		},
		Rule: func(s strategy.Strategy, snaps []*asset.Snapshot) ([]strategy.Action, []bool) {
			short, long, w := sbTrimaVals(s.(*strend.TrimaStrategy), snaps)
			return decide(len(snaps), w, func(i int) (strategy.Action, bool) { return sbAboveBelow(short[i], long[i]) })
		},
		Cols: func(s strategy.Strategy, snaps []*asset.Snapshot) map[string][]float64 {
			short, long, _ := sbTrimaVals(s.(*strend.TrimaStrategy), snaps)
			return map[string][]float64{"Short": short, "Long": long}
		},
	})

	// Triple Moving Average Crossover (doc): closings -> three EMAs; "buy when the fastest EMA
	// crosses above both the medium and slowest EMAs; sell when it crosses below both;
	// otherwise hold". w_s = idle of the slowest EMA (max of the three; the grid keeps
	// fast <= medium <= slow - the code aligns on SlowEma.IdlePeriod() only, so (1,3,2)
	// loses the count and the warm-up Holds, outside the documented use).
	// cfg: [0] = fast, [1] = medium, [2] = slow.
	regS(&Strat{
		Name: "TripleMovingAverageCrossover",
		Make: func(cfg []int, dflt bool) strategy.Strategy {
			if dflt {
				return strend.NewTripleMovingAverageCrossoverStrategy()
			}
			return strend.NewTripleMovingAverageCrossoverStrategyWith(cfg[0], cfg[1], cfg[2])
		},
		Warm: func(s strategy.Strategy) int {
			t := s.(*strend.TripleMovingAverageCrossoverStrategy)
			return imax(imax(t.FastEma.IdlePeriod(), t.MediumEma.IdlePeriod()), t.SlowEma.IdlePeriod())
		},
		Rule: func(s strategy.Strategy, snaps []*asset.Snapshot) ([]strategy.Action, []bool) {
			f, m, sl, w := sbTmacVals(s.(*strend.TripleMovingAverageCrossoverStrategy), snaps)
			return decide(len(snaps), w, func(i int) (strategy.Action, bool) {
				exempt := f[i] == m[i] || f[i] == sl[i]
				if f[i] > m[i] && f[i] > sl[i] {
					return strategy.Buy, exempt
				}
				if f[i] < m[i] && f[i] < sl[i] {
					return strategy.Sell, exempt
				}
				return strategy.Hold, exempt
			})
		},
		Cols: func(s strategy.Strategy, snaps []*asset.Snapshot) map[string][]float64 {
			f, m, sl, _ := sbTmacVals(s.(*strend.TripleMovingAverageCrossoverStrategy), snaps)
			return map[string][]float64{"Fast": f, "Medium": m, "Slow": sl}
		},
	})

	// TRIX strategy (doc): "TRIX crossing above the zero line => bullish, crossing below => bearish";
	// closings -> TRIX. Appendix B: trix > 0 Buy / trix < 0 Sell, trix == 0 exempt.
	// cfg: [0] = Trix.Period.
	regS(&Strat{
		Name: "Trix",
		Make: func(cfg []int, dflt bool) strategy.Strategy {
			s := strend.NewTrixStrategy()
			if !dflt {
				s.Trix.Period = cfg[0]
			}
			return s
		},
		Warm: func(s strategy.Strategy) int { return s.(*strend.TrixStrategy).Trix.IdlePeriod() },
		Rule: func(s strategy.Strategy, snaps []*asset.Snapshot) ([]strategy.Action, []bool) {
			trix, w := sbTrixVals(s.(*strend.TrixStrategy), snaps)
			return decide(len(snaps), w, func(i int) (strategy.Action, bool) { return sbAboveBelow(trix[i], 0) })
		},
		Cols: func(s strategy.Strategy, snaps []*asset.Snapshot) map[string][]float64 {
			trix, _ := sbTrixVals(s.(*strend.TrixStrategy), snaps)
			return map[string][]float64{"TRIX": trix}
		},
	})

	// TSI strategy (doc): Signal Line = Ema(12, TSI); "When TSI > 0, TSI > Signal Line, Buy.
	// When TSI < 0, TSI < Signal Line, Sell."; closings. w_s = tsi idle + signal idle.
	// cfg: [0] = first smoothing, [1] = second smoothing, [2] = signal period
	// (signal period 1 makes signal == TSI: every position a tie; use cfg[2] >= 2 in C06).
	regS(&Strat{
		Name: "Tsi",
		Make: func(cfg []int, dflt bool) strategy.Strategy {
			if dflt {
				return strend.NewTsiStrategy()
			}
			return strend.NewTsiStrategyWith(cfg[0], cfg[1], cfg[2])
		},
		Warm: func(s strategy.Strategy) int {
			t := s.(*strend.TsiStrategy)
			return t.Tsi.IdlePeriod() + t.Signal.IdlePeriod()
		},
		Rule: func(s strategy.Strategy, snaps []*asset.Snapshot) ([]strategy.Action, []bool) {
			tsi, signal, w := sbTsiVals(s.(*strend.TsiStrategy), snaps)
			return decide(len(snaps), w, func(i int) (strategy.Action, bool) {
				exempt := tsi[i] == 0 || tsi[i] == signal[i]
				if tsi[i] > 0 && tsi[i] > signal[i] {
					return strategy.Buy, exempt
				}
				if tsi[i] < 0 && tsi[i] < signal[i] {
					return strategy.Sell, exempt
				}
				return strategy.Hold, exempt
			})
		},
		Cols: func(s strategy.Strategy, snaps []*asset.Snapshot) map[string][]float64 {
			tsi, signal, _ := sbTsiVals(s.(*strend.TsiStrategy), snaps)
			return map[string][]float64{"TSI": tsi, "Signal": signal}
		},
	})

	// VWMA strategy (doc): "BUY when VWMA is above SMA, SELL when VWMA is below SMA, HOLD otherwise";
	// closings and volumes -> VWMA(P), closings -> SMA(P). w_s = P-1.
	// cfg: [0] = the common period of Vwma and Sma.
	regS(&Strat{
		Name: "Vwma",
		Make: func(cfg []int, dflt bool) strategy.Strategy {
			s := strend.NewVwmaStrategy()
			if !dflt {
				s.Vwma.Period = cfg[0]
				s.Sma.Period = cfg[0]
			}
			return s
		},
		Warm: func(s strategy.Strategy) int {
			v := s.(*strend.VwmaStrategy)
			return imax(v.Vwma.IdlePeriod(), v.Sma.IdlePeriod())
		},
		Rule: func(s strategy.Strategy, snaps []*asset.Snapshot) ([]strategy.Action, []bool) {
			vwma, sma, w := sbVwmaVals(s.(*strend.VwmaStrategy), snaps)
			return decide(len(snaps), w, func(i int) (strategy.Action, bool) { return sbAboveBelow(vwma[i], sma[i]) })
		},
		Cols: func(s strategy.Strategy, snaps []*asset.Snapshot) map[string][]float64 {
			vwma, sma, _ := sbVwmaVals(s.(*strend.VwmaStrategy), snaps)
			return map[string][]float64{"SMA": sma, "VWMA": vwma}
		},
	})

	// Weighted Close strategy (doc): "A weighted close crossing above the moving average
	// suggests a bullish trend, while crossing below the moving average indicates a bearish
	// trend"; Weighted Close = (High + Low + 2 Close)/4, MA over it. Appendix B reading:
	// wc > ma Buy, wc < ma Sell; wc == ma is a tie (exempt).  w_s = idle of the MA.
	// Observation (no check fails, so no KF): Compute returns Sell for everything that is
	// not wc > ma, i.e. it never emits Hold after the warm-up although the doc only speaks
	// of crossings; natively, constant prices (wc == ma everywhere) give Sell at every
	// position >= w_s (period 1: [-1 -1 -1 -1], period 2: [0 -1 -1 -1]). The difference to
	// the documented rule is confined to the tie wc == ma, which C06 exempts.
	// cfg: [0] = MA period.
	regS(&Strat{
		Name: "WeightedClose",
		Make: func(cfg []int, dflt bool) strategy.Strategy {
			if dflt {
				return strend.NewWeightedCloseStrategy()
			}
			return strend.NewWeightedCloseStrategyWith(cfg[0])
		},
		Warm: func(s strategy.Strategy) int {
			w := s.(*strend.WeightedCloseStrategy)
			return w.WeightedClose.IdlePeriod() + w.Ma.IdlePeriod()
		},
		Rule: func(s strategy.Strategy, snaps []*asset.Snapshot) ([]strategy.Action, []bool) {
			wc, ma, w := sbWcVals(s.(*strend.WeightedCloseStrategy), snaps)
			return decide(len(snaps), w, func(i int) (strategy.Action, bool) { return sbAboveBelow(wc[i], ma[i]) })
		},
		Cols: func(s strategy.Strategy, snaps []*asset.Snapshot) map[string][]float64 {
			wc, ma, _ := sbWcVals(s.(*strend.WeightedCloseStrategy), snaps)
			return map[string][]float64{"Weighted Close": wc, "Moving Average": ma}
		},
	})
}
