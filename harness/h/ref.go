package h

// Reference primitives for the documented formulas. All take the whole input
// slice and an input position i and return the value "as of position i".

// Sum of the p values ending at i.
func rSum(x []float64, p, i int) float64 {
	s := 0.0
	for j := i - p + 1; j <= i; j++ {
		s += x[j]
	}
	return s
}

// rSMA is the simple moving average of the p values ending at i.
func rSMA(x []float64, p, i int) float64 { return rSum(x, p, i) / float64(p) }

// rEMASeries returns the EMA series of x (period p, multiplier k), seeded with
// the SMA of the first p values; result[j] is valid for j >= p-1.
func rEMASeries(x []float64, p int, k float64) []float64 {
	out := make([]float64, len(x))
	if len(x) < p {
		return out
	}
	prev := rSMA(x, p, p-1)
	out[p-1] = prev
	for j := p; j < len(x); j++ {
		prev = (x[j]-prev)*k + prev
		out[j] = prev
	}
	return out
}

// rEMA: EMA with smoothing 2 => multiplier 2/(p+1).
func rEMA(x []float64, p int) []float64 { return rEMASeries(x, p, 2/float64(p+1)) }

// rRMA: Wilder's average: seed SMA, then (prev*(p-1)+x)/p.
func rRMA(x []float64, p int) []float64 {
	out := make([]float64, len(x))
	if len(x) < p {
		return out
	}
	prev := rSMA(x, p, p-1)
	out[p-1] = prev
	for j := p; j < len(x); j++ {
		prev = (prev*float64(p-1) + x[j]) / float64(p)
		out[j] = prev
	}
	return out
}

// rSMASeries: series of simple moving averages; valid for j >= p-1.
func rSMASeries(x []float64, p int) []float64 {
	out := make([]float64, len(x))
	for j := p - 1; j < len(x); j++ {
		out[j] = rSMA(x, p, j)
	}
	return out
}

// rMax / rMin over the p values ending at i.
func rMax(x []float64, p, i int) float64 {
	m := x[i-p+1]
	for j := i - p + 2; j <= i; j++ {
		if x[j] > m {
			m = x[j]
		}
	}
	return m
}

func rMin(x []float64, p, i int) float64 {
	m := x[i-p+1]
	for j := i - p + 2; j <= i; j++ {
		if x[j] < m {
			m = x[j]
		}
	}
	return m
}

func rAbs(a float64) float64 {
	if a < 0 {
		return -a
	}
	return a
}

func rMax2(a, b float64) float64 {
	if a > b {
		return a
	}
	return b
}

func rMin2(a, b float64) float64 {
	if a < b {
		return a
	}
	return b
}

// rTail returns x[from:] re-based so that index 0 is position from (for chained averages).
func rTail(x []float64, from int) []float64 {
	if from >= len(x) {
		return nil
	}
	return x[from:]
}

// rMapIdx builds a series s[j] = f(j) for j in [from, n) (zeros before).
func rMapIdx(n, from int, f func(j int) float64) []float64 {
	out := make([]float64, n)
	for j := from; j < n; j++ {
		out[j] = f(j)
	}
	return out
}
