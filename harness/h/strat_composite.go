package h

import (
	"github.com/cinar/indicator/v2/asset"
	"github.com/cinar/indicator/v2/strategy"
	"github.com/cinar/indicator/v2/strategy/decorator"
	smomentum "github.com/cinar/indicator/v2/strategy/momentum"
	strend "github.com/cinar/indicator/v2/strategy/trend"
)

// Compound and decorated strategies over REAL base strategies (MACD with the
// periods of cfg, RSI with period 2), so that the generic harnesses (count and
// Hold prefix, report columns, prefix property, scaling, termination, reuse)
// also cover the Compute / Report code of And, Or, Majority, Split, Inverse,
// No-Loss and Stop-Loss. Their decision functions are C07's subject: Rule is nil.

func compInner(cfg []int, dflt bool) (*strend.MacdStrategy, *smomentum.RsiStrategy) {
	m := strend.NewMacdStrategy()
	r := smomentum.NewRsiStrategy()
	if !dflt {
		m = strend.NewMacdStrategyWith(cfg[0], cfg[1], cfg[2])
		r.Rsi.Rma.Period = 2
	}
	return m, r
}

func compWarm(cfg []int, s strategy.Strategy, withRsi bool) int {
	var m *strend.MacdStrategy
	var r *smomentum.RsiStrategy
	switch t := s.(type) {
	case *strategy.AndStrategy:
		m, r = t.Strategies[0].(*strend.MacdStrategy), t.Strategies[1].(*smomentum.RsiStrategy)
	case *strategy.OrStrategy:
		m, r = t.Strategies[0].(*strend.MacdStrategy), t.Strategies[1].(*smomentum.RsiStrategy)
	case *strategy.MajorityStrategy:
		m, r = t.Strategies[0].(*strend.MacdStrategy), t.Strategies[1].(*smomentum.RsiStrategy)
	case *strategy.SplitStrategy:
		m, r = t.BuyStrategy.(*strend.MacdStrategy), t.SellStrategy.(*smomentum.RsiStrategy)
	case *decorator.InverseStrategy:
		m = t.InnerStrategy.(*strend.MacdStrategy)
	case *decorator.NoLossStrategy:
		m = t.InnertStrategy.(*strend.MacdStrategy)
	case *decorator.StopLossStrategy:
		m = t.InnertStrategy.(*strend.MacdStrategy)
	}
	w := m.Macd.IdlePeriod()
	if r != nil {
		// a vote can leave Hold only once every voter may: the smaller warm-up bounds the Hold prefix
		// for Or / Split, the larger one for And; the documented guarantee is the minimum over voters
		w = imin(w, r.Rsi.IdlePeriod())
	}
	return w
}

func init() {
	mk := func(name string, build func(m *strend.MacdStrategy, r *smomentum.RsiStrategy) strategy.Strategy) {
		regS(&Strat{
			Name: name,
			Make: func(cfg []int, dflt bool) strategy.Strategy {
				m, r := compInner(cfg, dflt)
				return build(m, r)
			},
			Warm: func(s strategy.Strategy) int { return compWarm(nil, s, true) },
			Rule: func(s strategy.Strategy, snaps []*asset.Snapshot) ([]strategy.Action, []bool) {
				return make([]strategy.Action, len(snaps)), make([]bool, len(snaps))
			},
		})
	}
	mk("CompAnd", func(m *strend.MacdStrategy, r *smomentum.RsiStrategy) strategy.Strategy {
		return strategy.NewAndStrategy("and", m, r)
	})
	mk("CompOr", func(m *strend.MacdStrategy, r *smomentum.RsiStrategy) strategy.Strategy {
		return strategy.NewOrStrategy("or", m, r)
	})
	mk("CompMajority", func(m *strend.MacdStrategy, r *smomentum.RsiStrategy) strategy.Strategy {
		return strategy.NewMajorityStrategyWith("majority", []strategy.Strategy{m, r})
	})
	mk("CompSplit", func(m *strend.MacdStrategy, r *smomentum.RsiStrategy) strategy.Strategy {
		return strategy.NewSplitStrategy(m, r)
	})
	mk("DecoInverse", func(m *strend.MacdStrategy, r *smomentum.RsiStrategy) strategy.Strategy {
		return decorator.NewInverseStrategy(m)
	})
	mk("DecoNoLoss", func(m *strend.MacdStrategy, r *smomentum.RsiStrategy) strategy.Strategy {
		return decorator.NewNoLossStrategy(m)
	})
	mk("DecoStopLoss", func(m *strend.MacdStrategy, r *smomentum.RsiStrategy) strategy.Strategy {
		return decorator.NewStopLossStrategy(m, 0.1)
	})
}
