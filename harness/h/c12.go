package h

import (
	"errors"
	"path/filepath"
	"time"

	"github.com/cinar/indicator/v2/asset"
	"verif/harness/vrt"
)

// faultyRepo wraps a repository and fails chosen calls (per asset).
type faultyRepo struct {
	asset.Repository
	failGetSince map[string]bool
	failAppend   map[string]bool
	failAssets   bool
}

func (f *faultyRepo) GetSince(name string, date time.Time) (<-chan *asset.Snapshot, error) {
	if f.failGetSince[name] {
		return nil, errors.New("injected GetSince failure")
	}
	return f.Repository.GetSince(name, date)
}

func (f *faultyRepo) Append(name string, snapshots <-chan *asset.Snapshot) error {
	if f.failAppend[name] {
		// a failing Append still has to consume its input
		for range snapshots {
		}
		return errors.New("injected Append failure")
	}
	return f.Repository.Append(name, snapshots)
}

func (f *faultyRepo) Assets() ([]string, error) {
	if f.failAssets {
		return nil, errors.New("injected Assets failure")
	}
	return f.Repository.Assets()
}

// increasing symbolic day numbers d_0 < d_1 < ... in [0, 9000]
func incDays(tag string, n int) []int {
	ds := make([]int, n)
	for i := range ds {
		ds[i] = vrt.Int("d"+tag, i)
		vrt.Assume(ds[i] >= 0 && ds[i] <= 9000)
		if i > 0 {
			vrt.Assume(ds[i] > ds[i-1])
		}
	}
	return ds
}

func snapsAt(tag string, days []int) []*asset.Snapshot {
	out := make([]*asset.Snapshot, len(days))
	for i, d := range days {
		c := vrt.Float64("p"+tag, i)
		out[i] = &asset.Snapshot{Date: vrt.Day(d), Open: c, High: c, Low: c, Close: c, Volume: 1}
	}
	return out
}

func getAll(r asset.Repository, name string) ([]*asset.Snapshot, bool) {
	c, err := r.Get(name)
	if err != nil {
		return nil, false
	}
	return Collect1(c), true
}

// H_C12: Sync.Run copies exactly the missing snapshots, once, for every asset.
// nAssets assets "a0".."a2"; asset j has ns source snapshots and tj = (tmask >> 2j) & 3
// target snapshots that are a prefix of the source (tj <= ns), so the source continues the target;
// explicit == 1 passes the asset list explicitly (otherwise it is taken from the target);
// fault: 0 none; 1 = source GetSince of asset 0 fails; 2 = target Append of asset 0 fails;
// 3 = source GetSince of EVERY asset fails (more failures than workers);
// workers = number of workers.
func H_C12(nAssets, ns, tmask, explicit, fault, workers int) {
	c12core(0, nAssets, ns, tmask, explicit, fault, workers)
}

// H_C12_Target: the same with another kind of target repository (1 = file system over
// the file-table model of the CSV layer, 2 = SQL over the table model, 3 = file system with
// the real CSV layer over the virtual file system): the errors a
// target reports for an asset it does not hold differ between the implementations.
func H_C12_Target(tkind, nAssets, ns, tmask, explicit int) {
	c12core(tkind, nAssets, ns, tmask, explicit, 0, 1)
}

func c12core(tkind, nAssets, ns, tmask, explicit, fault, workers int) {
	names := []string{"a0", "a1", "a2"}[:nAssets]
	// tkind 4: as 3, but an asset without snapshots is registered in the target by a
	// zero-length file instead of an Append of nothing
	touch := tkind == 4
	if touch {
		tkind = 3
	}
	var source, target asset.Repository = asset.NewInMemoryRepository(), newRepo(tkind)
	src := map[string][]*asset.Snapshot{}
	before := map[string][]*asset.Snapshot{}
	for j, name := range names {
		days := incDays(name, ns)
		ss := snapsAt(name, days)
		src[name] = ss
		_ = source.Append(name, Src(ss, 0))
		tj := (tmask >> (2 * j)) & 3
		if tj > ns {
			tj = ns
		}
		if touch && tj == 0 && explicit == 0 {
			touchFile(filepath.Join(repoDir, name+".csv"))
		} else if tj > 0 || explicit == 0 {
			// copies: the target owns its own snapshot objects
			cp := make([]*asset.Snapshot, tj)
			for i := 0; i < tj; i++ {
				c := *ss[i]
				cp[i] = &c
			}
			_ = target.Append(name, Src(cp, 0))
			before[name] = cp
		}
	}
	def := vrt.Int("default_start")
	vrt.Assume(def >= 0 && def <= 9000)
	s := asset.NewSync()
	s.Workers = workers
	s.Delay = 0
	if explicit == 1 {
		s.Assets = append([]string{}, names...)
	}
	var srcRepo, tgtRepo asset.Repository = source, target
	switch fault {
	case 1:
		srcRepo = &faultyRepo{Repository: source, failGetSince: map[string]bool{"a0": true}}
	case 2:
		tgtRepo = &faultyRepo{Repository: target, failAppend: map[string]bool{"a0": true}}
	case 3:
		// more failing assets than workers: every asset's GetSince fails
		all := map[string]bool{}
		for _, n := range names {
			all[n] = true
		}
		srcRepo = &faultyRepo{Repository: source, failGetSince: all}
	}
	// with an implicit asset list the assets are those the target lists beforehand (a
	// repository need not list a name that holds no snapshots: C10)
	listed := map[string]bool{}
	if explicit == 0 {
		as, aerr := target.Assets()
		vrt.Assert("assets_ok", aerr == nil)
		for _, a := range as {
			listed[a] = true
		}
	}
	err := s.Run(srcRepo, tgtRepo, vrt.Day(def))
	vrt.Assert("error_iff_fault", (err != nil) == (fault != 0))
	for _, name := range names {
		prev := before[name]
		var want []*asset.Snapshot
		want = append(want, prev...)
		failed := fault != 0 && name == "a0" || fault == 3 || explicit == 0 && !listed[name]
		if !failed {
			for _, x := range src[name] {
				if len(prev) > 0 {
					if vrt.DayOf(x.Date) > vrt.DayOf(prev[len(prev)-1].Date) {
						want = append(want, x)
					}
				} else if vrt.DayOf(x.Date) >= def {
					want = append(want, x)
				}
			}
		}
		got, ok := getAll(target, name)
		if !ok {
			// asset absent from the target: nothing was to be added
			vrt.Assert("absent_only_if_nothing_"+name, len(want) == 0)
			continue
		}
		sameSnaps("target_"+name, 0, got, want)
	}
	if fault == 0 {
		// running it again adds nothing
		s2 := asset.NewSync()
		s2.Workers = workers
		s2.Delay = 0
		if explicit == 1 {
			s2.Assets = append([]string{}, names...)
		}
		mid := map[string]int{}
		for _, name := range names {
			g, _ := getAll(target, name)
			mid[name] = len(g)
		}
		err2 := s2.Run(source, target, vrt.Day(def))
		vrt.Assert("second_run_ok", err2 == nil)
		for _, name := range names {
			g, _ := getAll(target, name)
			vrt.Assert("idempotent_"+name, len(g) == mid[name])
		}
	}
	vrt.Reach("end")
}
