package h

import "verif/harness/vrt"

// Ind describes one indicator for the generic harnesses (C01 C02 C03 C04 C09 C15 C18).
//
// Streams are named by one letter each in In: o h l c = open/high/low/close
// prices, v = volume, x y = plain numeric series. Config slots cfg[0..2] are
// the integer periods (unused slots are 0).
type Ind struct {
	Name string
	In   string // e.g. "c", "hlc", "hlcv", "ohlc", "x", "xy"
	NOut int
	// Make builds the real indicator instance for a configuration.
	Make func(cfg []int) any
	// Idle is the warm-up the instance declares (IdlePeriod), or the one the
	// documented formula implies for the types without that method.
	Idle func(inst any, cfg []int) int
	// Run starts the real pipeline; in[j] is the stream for In[j].
	Run func(inst any, in []<-chan float64) []<-chan float64
	// Ref is the documented formula: the value of output o for input position i
	// (i >= warm-up), computed directly from the input slices in[j].
	Ref func(cfg []int, in [][]float64, o, i int) float64
	// Deg[o] = homogeneity degree of output o in (prices, volumes); used by C18.
	Deg [][2]int
	// Range[o] = documented range of output o (C15); HasRange[o] says whether it applies.
	Lo, Hi   []float64
	HasRange []bool
	// Ordered: outputs are bands with out[0] >= out[1] >= out[2] (C15).
	Ordered bool
	// NonNeg[o]: output o is documented to be non-negative (C15).
	NonNeg []bool
	// KF returns the id of the recorded finding that exempts the formula check
	// of output o at position k for input length n ("" = none).
	KF func(cfg []int, n, o, k int) string
	// KF15 / KF18: the same for the range/order checks (C15) and the scaling check (C18).
	KF15 func(cfg []int, n, o, k int) string
	KF18 func(cfg []int, n, o, k int) string
	// KFLen returns the id of a recorded finding about the output length for n inputs.
	KFLen func(cfg []int, n int) string
	// KFOutcome: recorded finding about termination (deadlock/leak) for n inputs.
	KFOutcome func(cfg []int, n int) string
	// NoNewest[o]: output o by definition does not depend on the newest input (C02 witness exempt).
	NoNewest []bool
}

var Inds []*Ind

func reg(i *Ind) { Inds = append(Inds, i) }

// Lookup finds a table entry by name.
func Lookup(name string) *Ind {
	for _, i := range Inds {
		if i.Name == name {
			return i
		}
	}
	panic("unknown indicator " + name)
}

// Inputs builds n symbolic values per stream, named <prefix><letter>_<i>.
func Inputs(ind *Ind, prefix string, n int) [][]float64 {
	in := make([][]float64, len(ind.In))
	for j := range in {
		in[j] = vrt.Floats(prefix+string(ind.In[j]), n)
	}
	return in
}

// ValidOHLCV assumes 0 < low <= open, close <= high and volume >= 0 on the streams present.
func ValidOHLCV(ind *Ind, in [][]float64) {
	idx := func(ch byte) int {
		for j := range ind.In {
			if ind.In[j] == ch {
				return j
			}
		}
		return -1
	}
	h, l, c, o, v := idx('h'), idx('l'), idx('c'), idx('o'), idx('v')
	n := 0
	if len(in) > 0 {
		n = len(in[0])
	}
	for i := 0; i < n; i++ {
		if l >= 0 {
			vrt.Assume(in[l][i] > 0)
			if h >= 0 {
				vrt.Assume(in[l][i] <= in[h][i])
			}
			if c >= 0 {
				vrt.Assume(in[l][i] <= in[c][i])
			}
			if o >= 0 {
				vrt.Assume(in[l][i] <= in[o][i])
			}
		}
		if h >= 0 {
			vrt.Assume(in[h][i] > 0)
			if c >= 0 {
				vrt.Assume(in[c][i] <= in[h][i])
			}
			if o >= 0 {
				vrt.Assume(in[o][i] <= in[h][i])
			}
		}
		if c >= 0 {
			vrt.Assume(in[c][i] > 0)
		}
		if o >= 0 {
			vrt.Assume(in[o][i] > 0)
		}
		if v >= 0 {
			vrt.Assume(in[v][i] >= 0)
		}
	}
}

// Srcs turns the input slices into producer goroutines with channel capacity c.
func Srcs(in [][]float64, capacity int) []<-chan float64 {
	cs := make([]<-chan float64, len(in))
	for j := range in {
		cs[j] = Src(in[j], capacity)
	}
	return cs
}

// RunInd runs the real pipeline to completion and returns all outputs.
func RunInd(ind *Ind, inst any, in [][]float64, capacity int) [][]float64 {
	return Collect(ind.Run(inst, Srcs(in, capacity))...)
}

func cfg3(c1, c2, c3 int) []int { return []int{c1, c2, c3} }

func one(c <-chan float64) []<-chan float64 { return []<-chan float64{c} }
