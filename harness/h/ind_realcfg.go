package h

import (
	"github.com/cinar/indicator/v2/momentum"
	"github.com/cinar/indicator/v2/trend"
	"github.com/cinar/indicator/v2/volatility"
	"github.com/cinar/indicator/v2/volume"
	"verif/harness/vrt"
)

// Entries with a SYMBOLIC real-valued setting (one query covers every value of
// the setting): EMA smoothing, envelope percentage, NVI initial value. The
// setting is the symbolic input "cfg_real" (same variable in Make and in Ref).

func cfgReal(lo, hi float64) float64 {
	x := vrt.Float64("cfg_real")
	vrt.Assume(x > lo && x < hi)
	return x
}

func init() {
	// Ema with symbolic Smoothing s: multiplier s/(P+1); 0 < s < P+1 keeps it in (0,1).
	reg(&Ind{
		Name: "EmaS", In: "x", NOut: 1,
		Make: func(cfg []int) any {
			e := trend.NewEmaWithPeriod[float64](cfg[0])
			e.Smoothing = cfgReal(0, float64(cfg[0]+1))
			return e
		},
		Idle: func(inst any, cfg []int) int { return inst.(*trend.Ema[float64]).IdlePeriod() },
		Run: func(inst any, in []<-chan float64) []<-chan float64 {
			return one(inst.(*trend.Ema[float64]).Compute(in[0]))
		},
		Ref: func(cfg []int, in [][]float64, o, i int) float64 {
			k := cfgReal(0, float64(cfg[0]+1)) / float64(cfg[0]+1)
			return rEMASeries(in[0], cfg[0], k)[i]
		},
		Deg: [][2]int{{1, 0}},
	})
	// Envelope over SMA with symbolic Percentage p in (0,100).
	reg(&Ind{
		Name: "EnvelopeSmaP", In: "c", NOut: 3,
		Make: func(cfg []int) any {
			e := trend.NewEnvelopeWithSma[float64]()
			e.Ma.(*trend.Sma[float64]).Period = cfg[0]
			e.Percentage = cfgReal(0, 100)
			return e
		},
		Idle: func(inst any, cfg []int) int { return inst.(*trend.Envelope[float64]).IdlePeriod() },
		Run: func(inst any, in []<-chan float64) []<-chan float64 {
			u, m, l := inst.(*trend.Envelope[float64]).Compute(in[0])
			return []<-chan float64{u, m, l}
		},
		Ref: func(cfg []int, in [][]float64, o, i int) float64 {
			mid := rSMA(in[0], cfg[0], i)
			p := cfgReal(0, 100)
			switch o {
			case 0:
				return mid * (1 + p/100.0)
			case 2:
				return mid * (1 - p/100.0)
			}
			return mid
		},
		Deg:     [][2]int{{1, 0}, {1, 0}, {1, 0}},
		Ordered: true,
	})
	// Nvi with symbolic Initial value.
	reg(&Ind{
		Name: "NviI", In: "cv", NOut: 1,
		Make: func(cfg []int) any {
			n := volume.NewNvi[float64]()
			n.Initial = cfgReal(0, 1000000)
			return n
		},
		Idle: func(inst any, cfg []int) int { return inst.(*volume.Nvi[float64]).IdlePeriod() },
		Run: func(inst any, in []<-chan float64) []<-chan float64 {
			return one(inst.(*volume.Nvi[float64]).Compute(in[0], in[1]))
		},
		Ref: func(cfg []int, in [][]float64, o, i int) float64 {
			c, v := in[0], in[1]
			nvi := cfgReal(0, 1000000)
			for j := 1; j <= i; j++ {
				if v[j] > v[j-1] {
					continue
				}
				nvi = nvi + (((c[j] - c[j-1]) / c[j-1]) * nvi)
			}
			return nvi
		},
		Deg: [][2]int{{0, 0}},
	})
}

// Entries whose sub-indicator periods are set INDEPENDENTLY through the exported
// fields (the single-period constructors tie them together and hide alignment
// amounts taken from the wrong field).
func init() {
	// StochasticRsi with RSI period cfg[0] and min/max window cfg[1].
	reg(&Ind{
		Name: "StochasticRsi2", In: "c", NOut: 1,
		Make: func(cfg []int) any {
			s := momentum.NewStochasticRsiWithPeriod[float64](cfg[1])
			s.Rsi = momentum.NewRsiWithPeriod[float64](cfg[0])
			return s
		},
		Idle: func(inst any, cfg []int) int { return inst.(*momentum.StochasticRsi[float64]).IdlePeriod() },
		Run: func(inst any, in []<-chan float64) []<-chan float64 {
			return one(inst.(*momentum.StochasticRsi[float64]).Compute(in[0]))
		},
		Ref: func(cfg []int, in [][]float64, o, i int) float64 {
			rsi := mvRsiSeries(in[0], cfg[0], i)
			lo, hi := rMin(rsi, cfg[1], i), rMax(rsi, cfg[1], i)
			return (rsi[i] - lo) / (hi - lo)
		},
		Deg: [][2]int{{0, 0}},
		Lo:  []float64{0}, Hi: []float64{1}, HasRange: []bool{true},
	})

	// KeltnerChannel with ATR period cfg[0] and EMA period cfg[1] (exported fields Atr, Ema).
	//   Middle = EMA(cfg[1], closings); Upper/Lower = Middle +- 2 * ATR(cfg[0], highs, lows, closings)
	reg(&Ind{
		Name: "KeltnerChannel2", In: "hlc", NOut: 3,
		Make: func(cfg []int) any {
			k := volatility.NewKeltnerChannelWithPeriod[float64](cfg[0])
			k.Ema = trend.NewEmaWithPeriod[float64](cfg[1])
			return k
		},
		Idle: func(inst any, cfg []int) int { return inst.(*volatility.KeltnerChannel[float64]).IdlePeriod() },
		Run: func(inst any, in []<-chan float64) []<-chan float64 {
			u, m, l := inst.(*volatility.KeltnerChannel[float64]).Compute(in[0], in[1], in[2])
			return []<-chan float64{u, m, l}
		},
		Ref: func(cfg []int, in [][]float64, o, i int) float64 {
			h, l, c := in[0], in[1], in[2]
			mid := rEMA(c, cfg[1])[i]
			switch o {
			case 0:
				return mid + 2*voATR(h, l, c, cfg[0], i)
			case 2:
				return mid - 2*voATR(h, l, c, cfg[0], i)
			}
			return mid
		},
		Deg:     [][2]int{{1, 0}, {1, 0}, {1, 0}},
		Ordered: true,
	})
}
