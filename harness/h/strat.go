package h

import (
	"github.com/cinar/indicator/v2/asset"
	"github.com/cinar/indicator/v2/strategy"
	"verif/harness/vrt"
)

// Strat describes one base strategy for the generic harnesses (C05 C06 C14 and
// the strategy halves of C03 C04 C09 C18).
type Strat struct {
	Name string
	// Make builds the real strategy; cfg[0..2] are its integer periods set through
	// exported fields / constructors; dflt == true asks for the default configuration.
	Make func(cfg []int, dflt bool) strategy.Strategy
	// Warm is the documented warm-up w_s: the number of leading Holds (the idle
	// period the strategy's indicator declares for this configuration).
	Warm func(s strategy.Strategy) int
	// Rule is the DOCUMENTED decision for every position i >= w_s: want[i] is the
	// action the doc comment prescribes, computed from the values the REAL
	// documented indicator takes on the DOCUMENTED snapshot fields; exempt[i]
	// marks positions where the compared quantities are equal (exempt by C06).
	Rule func(s strategy.Strategy, snaps []*asset.Snapshot) (want []strategy.Action, exempt []bool)
	// Cols (C14): expected numeric indicator columns of the report by column name:
	// value for every date row (same length as the snapshots), nil if not stated.
	Cols func(s strategy.Strategy, snaps []*asset.Snapshot) map[string][]float64
	// Recorded findings (ids listed in /verif/known_findings.json).
	KFLen      func(cfg []int, n int) string             // C05: number of actions / Holds in the warm-up
	KFHoldOnly bool                                      // the KFLen finding concerns the warm-up Holds only: the count is asserted plainly
	KFRule     func(cfg []int, n, i int) string          // C06: rule at position i
	KFCol      func(cfg []int, n int, col string) string // C14: column length / content
	KFOutcome  func(cfg []int, n int) string
}

var Strats []*Strat

func regS(s *Strat) { Strats = append(Strats, s) }

func LookupS(name string) *Strat {
	for _, s := range Strats {
		if s.Name == name {
			return s
		}
	}
	panic("unknown strategy " + name)
}

// SymSnapshots builds n snapshots with symbolic, valid OHLCV values
// (0 < low <= open, close <= high; volume >= 0), named <prefix>o_i, h_i, l_i, c_i, v_i.
func SymSnapshots(prefix string, n int) []*asset.Snapshot {
	return symSnapshots(prefix, n, false)
}

// SymSnapshotsZ: as SymSnapshots, but prices may be zero (0 <= low): a missing quote.
func SymSnapshotsZ(prefix string, n int) []*asset.Snapshot {
	return symSnapshots(prefix, n, true)
}

func symSnapshots(prefix string, n int, zeroOK bool) []*asset.Snapshot {
	ss := make([]*asset.Snapshot, n)
	for i := range ss {
		s := &asset.Snapshot{
			Open: vrt.Float64(prefix+"o", i), High: vrt.Float64(prefix+"h", i), Low: vrt.Float64(prefix+"l", i),
			Close: vrt.Float64(prefix+"c", i), Volume: vrt.Float64(prefix+"v", i),
		}
		if zeroOK {
			vrt.Assume(s.Low >= 0)
		} else {
			vrt.Assume(s.Low > 0)
		}
		vrt.Assume(s.Low <= s.Open)
		vrt.Assume(s.Low <= s.Close)
		vrt.Assume(s.Open <= s.High)
		vrt.Assume(s.Close <= s.High)
		vrt.Assume(s.Volume >= 0)
		ss[i] = s
	}
	return ss
}

// field extractors
func fOpen(ss []*asset.Snapshot) []float64 {
	return fld(ss, func(s *asset.Snapshot) float64 { return s.Open })
}
func fHigh(ss []*asset.Snapshot) []float64 {
	return fld(ss, func(s *asset.Snapshot) float64 { return s.High })
}
func fLow(ss []*asset.Snapshot) []float64 {
	return fld(ss, func(s *asset.Snapshot) float64 { return s.Low })
}
func fClose(ss []*asset.Snapshot) []float64 {
	return fld(ss, func(s *asset.Snapshot) float64 { return s.Close })
}
func fVol(ss []*asset.Snapshot) []float64 {
	return fld(ss, func(s *asset.Snapshot) float64 { return s.Volume })
}

func fld(ss []*asset.Snapshot, f func(*asset.Snapshot) float64) []float64 {
	out := make([]float64, len(ss))
	for i, s := range ss {
		out[i] = f(s)
	}
	return out
}

// pad aligns an indicator output (which starts at position w) with the snapshots:
// result[i] = vals[i-w] for i >= w, 0 before.
func pad(vals []float64, w, n int) []float64 {
	out := make([]float64, n)
	for i := w; i < n && i-w < len(vals); i++ {
		out[i] = vals[i-w]
	}
	return out
}

// decide builds want/exempt from a per-position rule over aligned indicator values.
func decide(n, w int, f func(i int) (strategy.Action, bool)) ([]strategy.Action, []bool) {
	want := make([]strategy.Action, n)
	ex := make([]bool, n)
	for i := w; i < n; i++ {
		want[i], ex[i] = f(i)
	}
	return want, ex
}

func kfS(f func(cfg []int, n int) string, cfg []int, n int) string {
	if f == nil {
		return ""
	}
	return f(cfg, n)
}

// RunStrat runs Compute on the snapshots to completion.
func RunStrat(s strategy.Strategy, snaps []*asset.Snapshot, capacity int) []strategy.Action {
	return Collect1(s.Compute(Src(snaps, capacity)))
}
