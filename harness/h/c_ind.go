package h

import "verif/harness/vrt"

// H_Idle reports the warm-up of a configuration to the driver (grid construction).
func H_Idle(name string, c1, c2, c3 int) {
	ind := Lookup(name)
	cfg := cfg3(c1, c2, c3)
	inst := ind.Make(cfg)
	vrt.Note("w", ind.Idle(inst, cfg))
	vrt.Note("nin", len(ind.In))
	vrt.Note("nout", ind.NOut)
}

func kfOf(ind *Ind, cfg []int, n, o, k int) string {
	if ind.KF == nil {
		return ""
	}
	return ind.KF(cfg, n, o, k)
}

func kf15(ind *Ind, cfg []int, n, o, k int) string {
	if ind.KF15 == nil {
		return ""
	}
	return ind.KF15(cfg, n, o, k)
}

func kf18(ind *Ind, cfg []int, n, o, k int) string {
	if ind.KF18 == nil {
		return ""
	}
	return ind.KF18(cfg, n, o, k)
}

func kfLen(ind *Ind, cfg []int, n int) string {
	if ind.KFLen == nil {
		return ""
	}
	return ind.KFLen(cfg, n)
}

func declareOutcome(ind *Ind, cfg []int, n int) {
	if ind.KFOutcome != nil {
		if id := ind.KFOutcome(cfg, n); id != "" {
			vrt.KnownOutcome(id)
		}
	}
}

// H_C01: every output value equals the documented formula on its window.
// n = warm-up + dn symbolic inputs per stream.
func H_C01(name string, c1, c2, c3, dn int) {
	ind := Lookup(name)
	cfg := cfg3(c1, c2, c3)
	inst := ind.Make(cfg)
	w := ind.Idle(inst, cfg)
	n := w + dn
	declareOutcome(ind, cfg, n)
	in := Inputs(ind, "", n)
	outs := RunInd(ind, inst, in, 0)
	for o := range outs {
		label := vrt.Name("out", o)
		for k := range outs[o] {
			if k+w >= n {
				break // surplus values are C02's business
			}
			want := ind.Ref(cfg, in, o, k+w)
			if id := kfOf(ind, cfg, n, o, k); id != "" {
				vrt.KnownFindingEqAt(id, label, k, outs[o][k], want)
			} else {
				vrt.AssertEqAt(label, k, outs[o][k], want)
			}
		}
	}
	vrt.Reach("end")
}

// H_C02: exactly max(0, n-w) values on every output.
func H_C02(name string, c1, c2, c3, n int) {
	ind := Lookup(name)
	cfg := cfg3(c1, c2, c3)
	inst := ind.Make(cfg)
	w := ind.Idle(inst, cfg)
	declareOutcome(ind, cfg, n)
	in := Inputs(ind, "", n)
	outs := RunInd(ind, inst, in, 0)
	vrt.Assert("nout", len(outs) == ind.NOut)
	for o := range outs {
		label := vrt.Name("len", o)
		if id := kfLen(ind, cfg, n); id != "" {
			vrt.KnownFinding(id, label, len(outs[o]) == imax(0, n-w))
		} else {
			vrt.Assert(label, len(outs[o]) == imax(0, n-w))
		}
	}
	vrt.Reach("end")
}

// H_C02_Dep: output k really refers to input position k+w: perturbing only
// that position (in at least one stream) can change out[k]. "Possible" must be
// satisfiable.
func H_C02_Dep(name string, c1, c2, c3, dn int) {
	ind := Lookup(name)
	cfg := cfg3(c1, c2, c3)
	inst := ind.Make(cfg)
	w := ind.Idle(inst, cfg)
	n := w + dn
	in := Inputs(ind, "", n)
	base := RunInd(ind, inst, in, 0)
	for k := 0; k < n-w; k++ {
		// perturb position k+w of every stream at once
		in2 := make([][]float64, len(in))
		for j := range in {
			in2[j] = append([]float64(nil), in[j]...)
			in2[j][k+w] = vrt.Float64("p"+string(ind.In[j]), k)
		}
		alt := RunInd(ind, ind.Make(cfg), in2, 0)
		for o := range base {
			if ind.NoNewest != nil && ind.NoNewest[o] {
				continue
			}
			if kfOf(ind, cfg, n, o, k) != "" {
				continue // position routed to a recorded formula finding: no dependence is claimed there
			}
			if k < len(base[o]) && k < len(alt[o]) {
				// required only where the documented formula itself depends on position k+w
				// (windows of one make several formulas constant)
				refDep := ind.Ref(cfg, in, o, k+w) != ind.Ref(cfg, in2, o, k+w)
				vrt.PossibleIfAt(vrt.Name("dep", o), k, refDep, base[o][k] != alt[o][k])
			}
		}
	}
	vrt.Reach("end")
}

// H_C04: no look-ahead: the run on the first m inputs is a prefix of the run on all n.
func H_C04(name string, c1, c2, c3, dn, cut int) {
	ind := Lookup(name)
	cfg := cfg3(c1, c2, c3)
	inst := ind.Make(cfg)
	w := ind.Idle(inst, cfg)
	n := w + dn
	m := n - cut
	if m < 0 {
		m = 0
	}
	declareOutcome(ind, cfg, m)
	in := Inputs(ind, "", n)
	full := RunInd(ind, inst, in, 0)
	pre := make([][]float64, len(in))
	for j := range in {
		pre[j] = in[j][:m]
	}
	short := RunInd(ind, ind.Make(cfg), pre, 0)
	for o := range full {
		// the short run may not be longer than the full one minus the cut ...
		if id := kfLen(ind, cfg, m); id != "" {
			vrt.KnownFinding(id, vrt.Name("prefixlen", o), len(short[o]) <= imax(0, len(full[o])-(n-m)))
		} else {
			vrt.Assert(vrt.Name("prefixlen", o), len(short[o]) <= imax(0, len(full[o])-(n-m)) || len(short[o]) <= imax(0, m-w))
		}
		// ... and agrees with it position by position
		for k := range short[o] {
			if k < len(full[o]) {
				if id := kfLen(ind, cfg, m); id != "" {
					vrt.KnownFindingEqAt(id, vrt.Name("prefix", o), k, short[o][k], full[o][k])
				} else {
					vrt.AssertEqAt(vrt.Name("prefix", o), k, short[o][k], full[o][k])
				}
			}
		}
	}
	vrt.Reach("end")
}

// H_C15: documented ranges and band ordering on valid OHLCV input.
func H_C15(name string, c1, c2, c3, dn int) {
	ind := Lookup(name)
	cfg := cfg3(c1, c2, c3)
	inst := ind.Make(cfg)
	w := ind.Idle(inst, cfg)
	n := w + dn
	in := Inputs(ind, "", n)
	ValidOHLCV(ind, in)
	outs := RunInd(ind, inst, in, 0)
	for o := range outs {
		for k := range outs[o] {
			v := outs[o][k]
			id := kf15(ind, cfg, n, o, k)
			if ind.HasRange != nil && ind.HasRange[o] {
				if id != "" {
					vrt.KnownFindingAt(id, vrt.Name("range", o), k, v >= ind.Lo[o] && v <= ind.Hi[o])
				} else {
					vrt.AssertAt(vrt.Name("range", o), k, v >= ind.Lo[o] && v <= ind.Hi[o])
				}
			}
			if ind.NonNeg != nil && ind.NonNeg[o] {
				if id != "" {
					vrt.KnownFindingAt(id, vrt.Name("nonneg", o), k, v >= 0)
				} else {
					vrt.AssertAt(vrt.Name("nonneg", o), k, v >= 0)
				}
			}
		}
	}
	if ind.Ordered {
		for k := range outs[0] {
			if k < len(outs[1]) && k < len(outs[2]) {
				id := kf15(ind, cfg, n, 0, k)
				ok := outs[0][k] >= outs[1][k] && outs[1][k] >= outs[2][k]
				if id != "" {
					vrt.KnownFindingAt(id, "ordered", k, ok)
				} else {
					vrt.AssertAt("ordered", k, ok)
				}
			}
		}
	}
	vrt.Reach("end")
}

func scaled(ind *Ind, in [][]float64, lp, lv float64) [][]float64 {
	out := make([][]float64, len(in))
	for j := range in {
		f := lp
		if ind.In[j] == 'v' {
			f = lv
		}
		out[j] = make([]float64, len(in[j]))
		for i := range in[j] {
			out[j][i] = in[j][i] * f
		}
	}
	return out
}

func ipow(b float64, e int) float64 {
	r := 1.0
	for i := 0; i < e; i++ {
		r *= b
	}
	for i := 0; i > e; i-- {
		r /= b
	}
	return r
}

// H_C18: scaling prices by lp and volumes by lv scales output o by lp^dp * lv^dv.
// which: 0 => prices x2, 1 => prices x1/4, 2 => volumes x2, 3 => volumes x1/4.
func H_C18(name string, c1, c2, c3, dn, which int) {
	ind := Lookup(name)
	cfg := cfg3(c1, c2, c3)
	inst := ind.Make(cfg)
	w := ind.Idle(inst, cfg)
	n := w + dn
	lp, lv := 1.0, 1.0
	switch which {
	case 0:
		lp = 2
	case 1:
		lp = 0.25
	case 2:
		lv = 2
	case 3:
		lv = 0.25
	}
	in := Inputs(ind, "", n)
	ValidOHLCV(ind, in)
	a := RunInd(ind, inst, in, 0)
	b := RunInd(ind, ind.Make(cfg), scaled(ind, in, lp, lv), 0)
	for o := range a {
		vrt.Assert(vrt.Name("len", o), len(a[o]) == len(b[o]))
		f := ipow(lp, ind.Deg[o][0]) * ipow(lv, ind.Deg[o][1])
		for k := range a[o] {
			if k < len(b[o]) {
				if id := kf18(ind, cfg, n, o, k); id != "" {
					vrt.KnownFindingEqAt(id, vrt.Name("scale", o), k, b[o][k], a[o][k]*f)
				} else {
					vrt.AssertEqAt(vrt.Name("scale", o), k, b[o][k], a[o][k]*f)
				}
			}
		}
	}
	vrt.Reach("end")
}

// unequalInputDeadlock: the multi-input indicators that are recorded to deadlock
// when their input streams have different lengths (Duplicate fans out in lockstep
// while Operate drains "the other side" only after one side has ended).
var unequalInputDeadlock = map[string]bool{
	"AccelerationBands": true, "Ad": true, "ChaikinOscillator": true, "Cmf": true, "Kdj": true, "Mfm": true,
	"Mfv": true, "Mlr": true, "Mls": true, "Po": true, "StochasticOscillator": true, "SuperTrend": true,
}

// H_C03: termination, no leak, schedule independence (certificate issued by the
// engine for this run). capacity = input channel capacity; skew makes the input
// streams unequal: stream j gets n + offs[skew][j] values (skew 1..4: +-1 and +2 patterns).
func H_C03(name string, c1, c2, c3, n, capacity, skew int) {
	ind := Lookup(name)
	cfg := cfg3(c1, c2, c3)
	inst := ind.Make(cfg)
	declareOutcome(ind, cfg, n)
	if skew > 0 && unequalInputDeadlock[name] {
		vrt.KnownOutcome("KF-C03-unequal-input-lengths")
	}
	in := Inputs(ind, "", n+2)
	offs := [][]int{{0, 0, 0, 0}, {0, 1, -1, 1}, {1, -1, 0, -1}, {0, 2, 2, 0}, {2, 0, 0, 2}}
	for j := range in {
		nj := n + offs[skew][j]
		if nj < 0 {
			nj = 0
		}
		in[j] = in[j][:nj]
	}
	outs := RunInd(ind, inst, in, capacity)
	vrt.Assert("nout", len(outs) == ind.NOut)
	vrt.Reach("end")
}

// H_C09: an instance holds configuration only: a second Compute on the same
// instance (different input, different length) equals a Compute on a fresh one,
// and Compute never writes into the instance.
func H_C09(name string, c1, c2, c3, dn1, dn2 int) {
	ind := Lookup(name)
	cfg := cfg3(c1, c2, c3)
	inst := ind.Make(cfg)
	w := ind.Idle(inst, cfg)
	a := Inputs(ind, "a", w+dn1)
	b := Inputs(ind, "b", w+dn2)
	vrt.Freeze(inst)
	_ = RunInd(ind, inst, a, 0)
	second := RunInd(ind, inst, b, 0)
	vrt.Unfreeze()
	fresh := RunInd(ind, ind.Make(cfg), b, 0)
	for o := range fresh {
		vrt.Assert(vrt.Name("len", o), len(second[o]) == len(fresh[o]))
		for k := range fresh[o] {
			if k < len(second[o]) {
				vrt.AssertEqAt(vrt.Name("reuse", o), k, second[o][k], fresh[o][k])
			}
		}
	}
	vrt.Reach("end")
}

// H_C09_Conc: two Compute calls on one instance live at the same time; the
// engine's certificate over memory cells must find no unordered conflicting access.
func H_C09_Conc(name string, c1, c2, c3, dn int) {
	ind := Lookup(name)
	cfg := cfg3(c1, c2, c3)
	inst := ind.Make(cfg)
	w := ind.Idle(inst, cfg)
	a := Inputs(ind, "a", w+dn)
	b := Inputs(ind, "b", w+dn)
	ra := make([][]float64, 0)
	rb := make([][]float64, 0)
	da, db := make(chan struct{}), make(chan struct{})
	go func() { ra = RunInd(ind, inst, a, 0); close(da) }()
	go func() { rb = RunInd(ind, inst, b, 0); close(db) }()
	<-da
	<-db
	fresh := RunInd(ind, ind.Make(cfg), b, 0)
	for o := range fresh {
		for k := range fresh[o] {
			if k < len(rb[o]) {
				vrt.AssertEqAt(vrt.Name("conc", o), k, rb[o][k], fresh[o][k])
			}
		}
	}
	_ = ra
	vrt.Reach("end")
}

// H_C04_Tail: two runs on inputs of the SAME length n that agree on the first m
// positions and differ (independent symbolic values) afterwards: every output that
// belongs to an input position < m must be the same in both runs. Unlike the prefix
// form this cannot be satisfied by a look-ahead pipeline that merely emits fewer values
// when the stream ends early.
func H_C04_Tail(name string, c1, c2, c3, dn, cut int) {
	ind := Lookup(name)
	cfg := cfg3(c1, c2, c3)
	inst := ind.Make(cfg)
	w := ind.Idle(inst, cfg)
	n := w + dn
	m := n - cut
	if m < 0 {
		m = 0
	}
	declareOutcome(ind, cfg, n)
	inA := Inputs(ind, "", n)
	tail := Inputs(ind, "t", n)
	inB := make([][]float64, len(inA))
	for j := range inA {
		inB[j] = append(append([]float64(nil), inA[j][:m]...), tail[j][m:]...)
	}
	a := RunInd(ind, inst, inA, 0)
	b := RunInd(ind, ind.Make(cfg), inB, 0)
	id := kfLen(ind, cfg, n)
	for o := range a {
		for k := range a[o] {
			if k+w < m && k < len(b[o]) {
				if id != "" {
					vrt.KnownFindingEqAt(id, vrt.Name("causal", o), k, a[o][k], b[o][k])
				} else {
					vrt.AssertEqAt(vrt.Name("causal", o), k, a[o][k], b[o][k])
				}
			}
		}
	}
	vrt.Reach("end")
}

// H_C03_Late: the pipeline is assembled BEFORE any producer exists (Compute is called
// on channels nobody writes to yet) and only then are the producers started: assembling
// a pipeline must not wait for input ("whatever the pacing of producers").
func H_C03_Late(name string, c1, c2, c3, n int) {
	ind := Lookup(name)
	cfg := cfg3(c1, c2, c3)
	inst := ind.Make(cfg)
	declareOutcome(ind, cfg, n)
	in := Inputs(ind, "", n)
	chans := make([]chan float64, len(in))
	ro := make([]<-chan float64, len(in))
	for j := range in {
		chans[j] = make(chan float64)
		ro[j] = chans[j]
	}
	outs := ind.Run(inst, ro)
	for j := range in {
		go func(j int) {
			defer close(chans[j])
			for _, x := range in[j] {
				chans[j] <- x
			}
		}(j)
	}
	res := Collect(outs...)
	vrt.Assert("nout", len(res) == ind.NOut)
	vrt.Reach("end")
}
