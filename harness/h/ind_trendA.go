package h

import (
	"math"

	"github.com/cinar/indicator/v2/trend"
)

// Table entries for package trend, group A:
// Apo, Aroon, Bop, Cci, Dema, EnvelopeSma, EnvelopeEma, Hma, Kama, Kdj, MassIndex.
//
// Ref restates the doc comment of each type (DESIGN.md Appendix A reading where
// the comment is ambiguous); disagreements of the code are routed to KF ids.

// taEnvPct is the default envelope percentage as a run-time value, so that the
// factor 1 +- pct/100 is computed the way the library computes it.
var taEnvPct float64 = trend.DefaultEnvelopePercentage

// taWMA is the WMA doc comment taken literally:
// ((Value1 * 1/N) + (Value2 * 2/N) + ...) / 2 over the N values ending at i
// (Value1 = oldest).
func taWMA(x []float64, p, i int) float64 {
	s := 0.0
	for j := 1; j <= p; j++ {
		s += x[i-p+j] * float64(j) / float64(p)
	}
	return s / 2
}

// taHmaPeriods: the doc writes WMA(period/2), WMA(sqrt(period)); Appendix A
// reads both as rounded to the nearest integer.
func taHmaPeriods(p int) (half, root int) {
	return int(math.Round(float64(p) / 2)), int(math.Round(math.Sqrt(float64(p))))
}

// taSinceExtreme: periods since the most recent occurrence of the extreme m
// within the p values ending at i.
func taSinceExtreme(x []float64, p, i int, m float64) float64 {
	d := 0.0
	for j := i - p + 1; j <= i; j++ {
		if x[j] == m {
			d = float64(i - j)
		}
	}
	return d
}

func taEnvelopeRef(mid float64, o int) float64 {
	switch o {
	case 0:
		return mid * (1 + taEnvPct/100.0)
	case 2:
		return mid * (1 - taEnvPct/100.0)
	}
	return mid
}

func init() {
	// Apo(f,s), f <= s:  Fast = Ema(values, f); Slow = Ema(values, s); APO = Fast - Slow.
	// No IdlePeriod method; the formula implies s-1.
	reg(&Ind{
		Name: "Apo", In: "c", NOut: 1,
		Make: func(cfg []int) any {
			a := trend.NewApo[float64]()
			a.FastPeriod, a.SlowPeriod = cfg[0], cfg[1]
			return a
		},
		Idle: func(inst any, cfg []int) int { return cfg[1] - 1 },
		Run: func(inst any, in []<-chan float64) []<-chan float64 {
			return one(inst.(*trend.Apo[float64]).Compute(in[0]))
		},
		Ref: func(cfg []int, in [][]float64, o, i int) float64 {
			return rEMA(in[0], cfg[0])[i] - rEMA(in[0], cfg[1])[i]
		},
		Deg: [][2]int{{1, 0}},
		// Compute zips the two EMA streams without skipping the fast one by s-f:
		// out[k] = EMA_f[k+f-1] - EMA_s[k+s-1]. Wrong at every position when f != s.
		KF: func(cfg []int, n, o, k int) string {
			if cfg[0] != cfg[1] {
				return "KF-C01-apo-fast-not-skipped"
			}
			return ""
		},
		// n < s: the slow Ema emits its spurious 0, the fast one at least one
		// value, so one value comes out where none is due.
		KFLen: func(cfg []int, n int) string {
			if n < cfg[1] {
				return "KF-C02-apo-spurious-value"
			}
			return ""
		},
	})

	// Aroon(P): Aroon Up = ((P - Period Since Last P Period High) / P) * 100, same
	// with Low for Down; the code rounds to 0 digits (Appendix A keeps the round).
	// "Period since last P period high" = distance to the most recent occurrence
	// of the window maximum. No IdlePeriod method; the window implies P-1.
	reg(&Ind{
		Name: "Aroon", In: "hl", NOut: 2,
		Make: func(cfg []int) any {
			a := trend.NewAroon[float64]()
			a.Period = cfg[0]
			return a
		},
		Idle: func(inst any, cfg []int) int { return cfg[0] - 1 },
		Run: func(inst any, in []<-chan float64) []<-chan float64 {
			u, d := inst.(*trend.Aroon[float64]).Compute(in[0], in[1])
			return []<-chan float64{u, d}
		},
		Ref: func(cfg []int, in [][]float64, o, i int) float64 {
			p := cfg[0]
			x := in[o]
			var m float64
			if o == 0 {
				m = rMax(x, p, i)
			} else {
				m = rMin(x, p, i)
			}
			d := taSinceExtreme(x, p, i, m)
			return math.Round(100 * (float64(p) - d) / float64(p))
		},
		Deg:      [][2]int{{0, 0}, {0, 0}},
		Lo:       []float64{0, 0},
		Hi:       []float64{100, 100},
		HasRange: []bool{true, true},
		// helper.Since counts the periods since the moving max/min VALUE changed,
		// not since the extreme occurred: the first output is always 100, later
		// ones count unboundedly (negative results). Only P = 1, k = 0 is right.
		KF: func(cfg []int, n, o, k int) string {
			if cfg[0] > 1 || k > 0 {
				return "KF-C01-aroon-since-value-changed"
			}
			return ""
		},
		// the same defect takes the result out of [0,100] from the second output on
		KF15: func(cfg []int, n, o, k int) string {
			if k > 0 {
				return "KF-C15-aroon-out-of-range"
			}
			return ""
		},
	})

	// Bop: BOP = (Closing - Opening) / (High - Low). No IdlePeriod method; warm-up 0.
	reg(&Ind{
		Name: "Bop", In: "ohlc", NOut: 1,
		Make: func(cfg []int) any { return trend.NewBop[float64]() },
		Idle: func(inst any, cfg []int) int { return 0 },
		Run: func(inst any, in []<-chan float64) []<-chan float64 {
			return one(inst.(*trend.Bop[float64]).Compute(in[0], in[1], in[2], in[3]))
		},
		Ref: func(cfg []int, in [][]float64, o, i int) float64 {
			return (in[3][i] - in[0][i]) / (in[1][i] - in[2][i])
		},
		Deg:      [][2]int{{0, 0}},
		Lo:       []float64{-1},
		Hi:       []float64{1},
		HasRange: []bool{true},
	})

	// Cci(P): Moving Average = Sma(P, TP); Mean Deviation = Sma(P, Abs(TP - MA));
	// CCI = (TP - MA) / (0.015 * MD), series-wise as the doc writes it
	// (the deviation at position j uses the moving average at j).
	reg(&Ind{
		Name: "Cci", In: "hlc", NOut: 1,
		Make: func(cfg []int) any { return trend.NewCciWithPeriod[float64](cfg[0]) },
		Idle: func(inst any, cfg []int) int { return inst.(*trend.Cci[float64]).IdlePeriod() },
		Run: func(inst any, in []<-chan float64) []<-chan float64 {
			return one(inst.(*trend.Cci[float64]).Compute(in[0], in[1], in[2]))
		},
		Ref: func(cfg []int, in [][]float64, o, i int) float64 {
			p := cfg[0]
			h, l, c := in[0], in[1], in[2]
			tp := rMapIdx(len(c), 0, func(j int) float64 { return (h[j] + l[j] + c[j]) / 3 })
			dev := rMapIdx(len(c), p-1, func(j int) float64 { return rAbs(tp[j] - rSMA(tp, p, j)) })
			return (tp[i] - rSMA(tp, p, i)) / (0.015 * rSMA(dev, p, i))
		},
		Deg: [][2]int{{0, 0}},
	})

	// Dema(P1,P2): DEMA = (2 * EMA1(values)) - EMA2(EMA1(values)).
	reg(&Ind{
		Name: "Dema", In: "c", NOut: 1,
		Make: func(cfg []int) any {
			d := trend.NewDema[float64]()
			d.Ema1.Period, d.Ema2.Period = cfg[0], cfg[1]
			return d
		},
		Idle: func(inst any, cfg []int) int { return inst.(*trend.Dema[float64]).IdlePeriod() },
		Run: func(inst any, in []<-chan float64) []<-chan float64 {
			return one(inst.(*trend.Dema[float64]).Compute(in[0]))
		},
		Ref: func(cfg []int, in [][]float64, o, i int) float64 {
			from := cfg[0] - 1
			e1 := rEMA(in[0], cfg[0])
			e2 := rEMA(rTail(e1, from), cfg[1])
			return 2*e1[i] - e2[i-from]
		},
		Deg: [][2]int{{1, 0}},
		// 2*EMA1 is only buffered, not skipped by P2-1:
		// out[k] = 2*E1[k+P1-1] - E2[k+P1+P2-2]. Wrong everywhere when P2 > 1.
		KF: func(cfg []int, n, o, k int) string {
			if cfg[1] > 1 {
				return "KF-C01-dema-ema1-not-skipped"
			}
			return ""
		},
		// n <= warm-up: the inner/outer Ema emit their spurious 0 and one value comes out.
		KFLen: func(cfg []int, n int) string {
			if n < cfg[0]+cfg[1]-1 {
				return "KF-C02-dema-spurious-value"
			}
			return ""
		},
	})

	// Envelope(ma, pct): middle = MA(closings); upper = middle*(1+pct/100);
	// lower = middle*(1-pct/100) (no formula in the doc comment; Appendix A). pct = default 20.
	reg(&Ind{
		Name: "EnvelopeSma", In: "c", NOut: 3,
		Make: func(cfg []int) any {
			e := trend.NewEnvelopeWithSma[float64]()
			e.Ma.(*trend.Sma[float64]).Period = cfg[0]
			return e
		},
		Idle: func(inst any, cfg []int) int { return inst.(*trend.Envelope[float64]).IdlePeriod() },
		Run: func(inst any, in []<-chan float64) []<-chan float64 {
			u, m, l := inst.(*trend.Envelope[float64]).Compute(in[0])
			return []<-chan float64{u, m, l}
		},
		Ref: func(cfg []int, in [][]float64, o, i int) float64 {
			return taEnvelopeRef(rSMA(in[0], cfg[0], i), o)
		},
		Deg:     [][2]int{{1, 0}, {1, 0}, {1, 0}},
		Ordered: true,
	})
	reg(&Ind{
		Name: "EnvelopeEma", In: "c", NOut: 3,
		Make: func(cfg []int) any {
			e := trend.NewEnvelopeWithEma[float64]()
			e.Ma.(*trend.Ema[float64]).Period = cfg[0]
			return e
		},
		Idle: func(inst any, cfg []int) int { return inst.(*trend.Envelope[float64]).IdlePeriod() },
		Run: func(inst any, in []<-chan float64) []<-chan float64 {
			u, m, l := inst.(*trend.Envelope[float64]).Compute(in[0])
			return []<-chan float64{u, m, l}
		},
		Ref: func(cfg []int, in [][]float64, o, i int) float64 {
			return taEnvelopeRef(rEMA(in[0], cfg[0])[i], o)
		},
		Deg:     [][2]int{{1, 0}, {1, 0}, {1, 0}},
		Ordered: true,
		// inherits the Ema defect: one spurious 0 on every band when n < P.
		KFLen: func(cfg []int, n int) string {
			if n < cfg[0] {
				return "KF-C02-envelope-ema-spurious-zero"
			}
			return ""
		},
	})

	// Hma(P): WMA1 = WMA(P/2, values); WMA2 = WMA(P, values);
	// HMA = WMA(sqrt(P), 2*WMA1 - WMA2); periods rounded (Appendix A); WMA per its own doc.
	reg(&Ind{
		Name: "Hma", In: "x", NOut: 1,
		Make: func(cfg []int) any { return trend.NewHmaWithPeriod[float64](cfg[0]) },
		Idle: func(inst any, cfg []int) int { return inst.(*trend.Hma[float64]).IdlePeriod() },
		Run: func(inst any, in []<-chan float64) []<-chan float64 {
			return one(inst.(*trend.Hma[float64]).Compute(in[0]))
		},
		Ref: func(cfg []int, in [][]float64, o, i int) float64 {
			p := cfg[0]
			half, root := taHmaPeriods(p)
			x := in[0]
			inner := rMapIdx(len(x), p-1, func(j int) float64 { return 2*taWMA(x, half, j) - taWMA(x, p, j) })
			return taWMA(inner, root, i)
		},
		Deg: [][2]int{{1, 0}},
	})

	// Kama(E,f,s):
	//   Direction = Abs(Close - Close E periods ago)
	//   Volatility = MovingSum(E, Abs(Close - Previous Close))
	//   ER = Direction / Volatility
	//   SC = (ER * (2/(f+1) - 2/(s+1)) + 2/(s+1))^2
	//   KAMA = Previous KAMA + SC * (Price - Previous KAMA), seed KAMA_{E-1} = c_{E-1} (Appendix A).
	reg(&Ind{
		Name: "Kama", In: "c", NOut: 1,
		Make: func(cfg []int) any { return trend.NewKamaWith[float64](cfg[0], cfg[1], cfg[2]) },
		Idle: func(inst any, cfg []int) int { return inst.(*trend.Kama[float64]).IdlePeriod() },
		Run: func(inst any, in []<-chan float64) []<-chan float64 {
			return one(inst.(*trend.Kama[float64]).Compute(in[0]))
		},
		Ref: func(cfg []int, in [][]float64, o, i int) float64 {
			e := cfg[0]
			c := in[0]
			fast := 2 / float64(cfg[1]+1)
			slow := 2 / float64(cfg[2]+1)
			k := c[e-1]
			for j := e; j <= i; j++ {
				dir := rAbs(c[j] - c[j-e])
				vol := 0.0
				for t := j - e + 1; t <= j; t++ {
					vol += rAbs(c[t] - c[t-1])
				}
				sc := (dir/vol)*(fast-slow) + slow
				k = k + sc*sc*(c[j]-k)
			}
			return k
		},
		Deg: [][2]int{{1, 0}},
	})

	// Kdj(r,k,d): RSV = ((Closing - Min(Low, r)) / (Max(High, r) - Min(Low, r))) * 100;
	// K = Sma(RSV, k); D = Sma(K, d); J = 3K - 2D. Outputs K, D, J.
	reg(&Ind{
		Name: "Kdj", In: "hlc", NOut: 3,
		Make: func(cfg []int) any {
			k := trend.NewKdj[float64]()
			k.MovingMax.Period, k.MovingMin.Period = cfg[0], cfg[0]
			k.Sma1.Period, k.Sma2.Period = cfg[1], cfg[2]
			return k
		},
		Idle: func(inst any, cfg []int) int { return inst.(*trend.Kdj[float64]).IdlePeriod() },
		Run: func(inst any, in []<-chan float64) []<-chan float64 {
			k, d, j := inst.(*trend.Kdj[float64]).Compute(in[0], in[1], in[2])
			return []<-chan float64{k, d, j}
		},
		Ref: func(cfg []int, in [][]float64, o, i int) float64 {
			r, kp, dp := cfg[0], cfg[1], cfg[2]
			h, l, c := in[0], in[1], in[2]
			rsv := func(j int) float64 {
				lo := rMin(l, r, j)
				return (c[j] - lo) / (rMax(h, r, j) - lo) * 100
			}
			kAt := func(j int) float64 {
				s := 0.0
				for t := j - kp + 1; t <= j; t++ {
					s += rsv(t)
				}
				return s / float64(kp)
			}
			dAt := func(j int) float64 {
				s := 0.0
				for t := j - dp + 1; t <= j; t++ {
					s += kAt(t)
				}
				return s / float64(dp)
			}
			switch o {
			case 0:
				return kAt(i)
			case 1:
				return dAt(i)
			}
			return 3*kAt(i) - 2*dAt(i)
		},
		Deg: [][2]int{{0, 0}, {0, 0}, {0, 0}},
	})

	// MassIndex(P1,P2,P3): Single EMA = EMA(P1, Highs - Lows); Double EMA = EMA(P2, Single EMA);
	// Ratio = Single EMA / Double EMA; Mass Index = SUM(Ratio, P3).
	reg(&Ind{
		Name: "MassIndex", In: "hl", NOut: 1,
		Make: func(cfg []int) any {
			m := trend.NewMassIndex[float64]()
			m.Ema1.Period, m.Ema2.Period, m.MovingSum.Period = cfg[0], cfg[1], cfg[2]
			return m
		},
		Idle: func(inst any, cfg []int) int { return inst.(*trend.MassIndex[float64]).IdlePeriod() },
		Run: func(inst any, in []<-chan float64) []<-chan float64 {
			return one(inst.(*trend.MassIndex[float64]).Compute(in[0], in[1]))
		},
		Ref: func(cfg []int, in [][]float64, o, i int) float64 {
			h, l := in[0], in[1]
			from := cfg[0] - 1
			d := rMapIdx(len(h), 0, func(j int) float64 { return h[j] - l[j] })
			e1 := rEMA(d, cfg[0])
			e2 := rEMA(rTail(e1, from), cfg[1])
			s := 0.0
			for j := i - cfg[2] + 1; j <= i; j++ {
				s += e1[j] / e2[j-from]
			}
			return s
		},
		Deg: [][2]int{{0, 0}},
		// n < P1: Ema1 emits its spurious 0; with P2 = 1 the second Ema passes it on,
		// Ratio = 0/0 = NaN, and with P3 = 1 that NaN comes out where no value is due.
		// (P2 > 1: the Skip(P2-1) swallows it; P3 > 1: MovingSum's Skip does.)
		// Seen natively; the symbolic run discards the path (division side condition 0 != 0).
		KFLen: func(cfg []int, n int) string {
			if n < cfg[0] && cfg[1] == 1 && cfg[2] == 1 {
				return "KF-C02-massindex-spurious-nan"
			}
			return ""
		},
	})
}
