package h

import (
	"reflect"

	"github.com/cinar/indicator/v2/strategy"
	smomentum "github.com/cinar/indicator/v2/strategy/momentum"
)

// Entries <Name>F: every strategy configured the other way - the DEFAULT constructor
// first, then its exported fields overwritten with those of the instance that the
// "...With(...)" constructor builds for the configuration (what a user does who
// tweaks a default strategy field by field). Anything a constructor derives from its
// arguments and caches must agree with the fields.
func init() {
	// RSI strategy with thresholds on the same side of 50 (the default 30 / 70 straddle it)
	rsi := *LookupS("Rsi")
	rsi.Name = "RsiT"
	rsi.Make = func(cfg []int, dflt bool) strategy.Strategy {
		s := smomentum.NewRsiStrategyWith(60, 80)
		if !dflt {
			s.Rsi.Rma.Period = cfg[0]
		}
		return s
	}
	regS(&rsi)
	base := append([]*Strat(nil), Strats...)
	for _, st := range base {
		st := st
		clone := *st
		clone.Name = st.Name + "F"
		clone.Make = func(cfg []int, dflt bool) strategy.Strategy {
			d := st.Make(cfg, true)
			if dflt {
				return d
			}
			copyExported(d, st.Make(cfg, false))
			return d
		}
		regS(&clone)
	}
}

func copyExported(dst, src any) {
	dv, sv := reflect.ValueOf(dst).Elem(), reflect.ValueOf(src).Elem()
	t := dv.Type()
	for i := 0; i < t.NumField(); i++ {
		if t.Field(i).PkgPath == "" {
			dv.Field(i).Set(sv.Field(i))
		}
	}
}
