package h

import (
	"github.com/cinar/indicator/v2/trend"
)

// Table entries for package trend, group B:
// Mls Mlr MovingMax MovingMin MovingSum Rma Smma Tema Trima Trix Tsi
// TypicalPrice WeightedClose Vwma Wma.
//
// Ref functions restate the doc comments (or, where the doc comment gives no
// formula, the reading of DESIGN.md Appendix A); they are not copies of the
// implementation pipelines.

// tbEmaSeedFixed: /repo commit ad80b5e ("fix: Ema, Rma and Smma emit nothing
// when the input is shorter than the period") removed the spurious seed 0 that
// Ema/Rma/Smma emitted for n < Period. The length findings below (Rma, Smma,
// Tema, Tsi) were observed, with exactly these predicates, on the tree before
// that commit (snapshot 7c87952) and no longer reproduce after it; they are
// kept as documentation and switched off so that no stale exemption is active.
// Set to false to check a tree without the fix.
const tbEmaSeedFixed = true

// tbLS returns the least-squares slope m and intercept b of the p points
// (x_j, y_j), j = i-p+1..i  (doc comment of Mls):
//
//	m = (p*sumXY - sumX*sumY) / (p*sumX2 - sumX*sumX) ; b = (sumY - m*sumX) / p
func tbLS(x, y []float64, p, i int) (float64, float64) {
	var sx, sy, sxy, sx2 float64
	for j := i - p + 1; j <= i; j++ {
		sx += x[j]
		sy += y[j]
		sxy += x[j] * y[j]
		sx2 += x[j] * x[j]
	}
	fp := float64(p)
	m := (fp*sxy - sx*sy) / (fp*sx2 - sx*sx)
	b := (sy - m*sx) / fp
	return m, b
}

// tbEMAChain applies EMA_{ps[0]}, then EMA_{ps[1]} on its valid part, ... and
// returns every stage re-based to input positions (stage s is valid from
// position sum_{t<=s}(ps[t]-1)).
func tbEMAChain(x []float64, ps ...int) [][]float64 {
	stages := make([][]float64, len(ps))
	cur := x
	from := 0 // input position of cur[0]
	for s, p := range ps {
		e := rEMA(cur, p) // valid from index p-1 of cur
		st := make([]float64, len(x))
		for j := p - 1; j < len(cur); j++ {
			st[from+j] = e[j]
		}
		stages[s] = st
		cur = rTail(e, p-1)
		from += p - 1
	}
	return stages
}

// tbTrimaPeriods: the two SMA periods of the Trima doc comment, (outer, inner).
func tbTrimaPeriods(p int) (int, int) {
	if p%2 == 0 {
		return p / 2, p/2 + 1
	}
	return (p + 1) / 2, (p + 1) / 2
}

// tbWMA is the Wma doc comment read literally (Appendix A):
//
//	WMA = ((Value1 * 1/N) + (Value2 * 2/N) + ...) / 2
//
// with Value1 the oldest value of the window ("more weight on recent data").
func tbWMA(x []float64, p, i int) float64 {
	s := 0.0
	for j := 1; j <= p; j++ {
		s += x[i-p+j] * float64(j) / float64(p)
	}
	return s / 2
}

func init() {
	// Mls(P): x,y -> m,b ; least squares over the window of P points.
	reg(&Ind{
		Name: "Mls", In: "xy", NOut: 2,
		Make: func(cfg []int) any { return trend.NewMlsWithPeriod[float64](cfg[0]) },
		Idle: func(inst any, cfg []int) int { return inst.(*trend.Mls[float64]).IdlePeriod() },
		Run: func(inst any, in []<-chan float64) []<-chan float64 {
			m, b := inst.(*trend.Mls[float64]).Compute(in[0], in[1])
			return []<-chan float64{m, b}
		},
		Ref: func(cfg []int, in [][]float64, o, i int) float64 {
			m, b := tbLS(in[0], in[1], cfg[0], i)
			if o == 0 {
				return m
			}
			return b
		},
		// x and y are both scaled ("prices"): slope is dimensionless, intercept scales like y.
		Deg: [][2]int{{0, 0}, {1, 0}},
	})
	// Mlr(P): r = m*x_i + b with (m,b) of Mls.
	reg(&Ind{
		Name: "Mlr", In: "xy", NOut: 1,
		Make: func(cfg []int) any { return trend.NewMlrWithPeriod[float64](cfg[0]) },
		Idle: func(inst any, cfg []int) int { return inst.(*trend.Mlr[float64]).IdlePeriod() },
		Run: func(inst any, in []<-chan float64) []<-chan float64 {
			return one(inst.(*trend.Mlr[float64]).Compute(in[0], in[1]))
		},
		Ref: func(cfg []int, in [][]float64, o, i int) float64 {
			m, b := tbLS(in[0], in[1], cfg[0], i)
			return m*in[0][i] + b
		},
		Deg: [][2]int{{1, 0}},
	})
	// MovingMax(P) / MovingMin(P): window max / min.
	// No KF: the defect "a 0 among the first P inputs is removed from the search
	// tree together with the Shift fill value 0" (snapshot 7c87952; every
	// counterexample needed a 0 among the first P inputs) is repaired by /repo
	// commit 4ea6a73; on the repaired tree the formula holds for all inputs.
	reg(&Ind{
		Name: "MovingMax", In: "x", NOut: 1,
		Make: func(cfg []int) any { return trend.NewMovingMaxWithPeriod[float64](cfg[0]) },
		Idle: func(inst any, cfg []int) int { return inst.(*trend.MovingMax[float64]).IdlePeriod() },
		Run: func(inst any, in []<-chan float64) []<-chan float64 {
			return one(inst.(*trend.MovingMax[float64]).Compute(in[0]))
		},
		Ref: func(cfg []int, in [][]float64, o, i int) float64 { return rMax(in[0], cfg[0], i) },
		Deg: [][2]int{{1, 0}},
	})
	reg(&Ind{
		Name: "MovingMin", In: "x", NOut: 1,
		Make: func(cfg []int) any { return trend.NewMovingMinWithPeriod[float64](cfg[0]) },
		Idle: func(inst any, cfg []int) int { return inst.(*trend.MovingMin[float64]).IdlePeriod() },
		Run: func(inst any, in []<-chan float64) []<-chan float64 {
			return one(inst.(*trend.MovingMin[float64]).Compute(in[0]))
		},
		Ref: func(cfg []int, in [][]float64, o, i int) float64 { return rMin(in[0], cfg[0], i) },
		Deg: [][2]int{{1, 0}},
	})
	// MovingSum(P): sum of the last P values.
	reg(&Ind{
		Name: "MovingSum", In: "x", NOut: 1,
		Make: func(cfg []int) any { return trend.NewMovingSumWithPeriod[float64](cfg[0]) },
		Idle: func(inst any, cfg []int) int { return inst.(*trend.MovingSum[float64]).IdlePeriod() },
		Run: func(inst any, in []<-chan float64) []<-chan float64 {
			return one(inst.(*trend.MovingSum[float64]).Compute(in[0]))
		},
		Ref: func(cfg []int, in [][]float64, o, i int) float64 { return rSum(in[0], cfg[0], i) },
		Deg: [][2]int{{1, 0}},
	})
	// Rma(P): R[p-1] = SMA of the first p values; R[i] = (R[i-1]*(p-1) + v[i]) / p.
	reg(&Ind{
		Name: "Rma", In: "x", NOut: 1,
		Make: func(cfg []int) any { return trend.NewRmaWithPeriod[float64](cfg[0]) },
		Idle: func(inst any, cfg []int) int { return inst.(*trend.Rma[float64]).IdlePeriod() },
		Run: func(inst any, in []<-chan float64) []<-chan float64 {
			return one(inst.(*trend.Rma[float64]).Compute(in[0]))
		},
		Ref: func(cfg []int, in [][]float64, o, i int) float64 { return rRMA(in[0], cfg[0])[i] },
		Deg: [][2]int{{1, 0}},
		// Before ad80b5e, n < P: Head(c,P) is short, the inner Sma yields nothing,
		// `<-` on the closed channel reads the zero value and it is sent as a result.
		KFLen: func(cfg []int, n int) string {
			if !tbEmaSeedFixed && n < cfg[0] {
				return "KF-C02-rma-spurious-zero"
			}
			return ""
		},
	})
	// Smma(N): SMMA[0] = SMA(N); SMMA[i] = (SMMA[i-1]*(N-1) + Close[i]) / N  (same recursion as Rma).
	reg(&Ind{
		Name: "Smma", In: "x", NOut: 1,
		Make: func(cfg []int) any { return trend.NewSmmaWithPeriod[float64](cfg[0]) },
		Idle: func(inst any, cfg []int) int { return inst.(*trend.Smma[float64]).IdlePeriod() },
		Run: func(inst any, in []<-chan float64) []<-chan float64 {
			return one(inst.(*trend.Smma[float64]).Compute(in[0]))
		},
		Ref: func(cfg []int, in [][]float64, o, i int) float64 { return rRMA(in[0], cfg[0])[i] },
		Deg: [][2]int{{1, 0}},
		KFLen: func(cfg []int, n int) string {
			if !tbEmaSeedFixed && n < cfg[0] {
				return "KF-C02-smma-spurious-zero"
			}
			return ""
		},
	})
	// Tema(P1,P2,P3): TEMA = 3*EMA1 - 3*EMA2 + EMA3, EMA1 = EMA_P1(c), EMA2 = EMA_P2(EMA1), EMA3 = EMA_P3(EMA2).
	reg(&Ind{
		Name: "Tema", In: "c", NOut: 1,
		Make: func(cfg []int) any {
			t := trend.NewTema[float64]()
			t.Ema1.Period, t.Ema2.Period, t.Ema3.Period = cfg[0], cfg[1], cfg[2]
			return t
		},
		Idle: func(inst any, cfg []int) int { return inst.(*trend.Tema[float64]).IdlePeriod() },
		Run: func(inst any, in []<-chan float64) []<-chan float64 {
			return one(inst.(*trend.Tema[float64]).Compute(in[0]))
		},
		Ref: func(cfg []int, in [][]float64, o, i int) float64 {
			e := tbEMAChain(in[0], cfg[0], cfg[1], cfg[2])
			return 3*e[0][i] - 3*e[1][i] + e[2][i]
		},
		Deg: [][2]int{{1, 0}},
		// Before ad80b5e, n < P1: Ema1 emits its spurious 0 (KF-C02-ema-spurious-zero). With
		// P2 > 1 or P3 > 1 the Skip(P2-1)/Skip(P3-1) on the ema1 branch swallows
		// it and the zip ends empty; with P2 = P3 = 1 nothing is skipped and the
		// 0 travels through Ema2, Ema3 (both identities) to the output.
		KFLen: func(cfg []int, n int) string {
			if !tbEmaSeedFixed && cfg[1] == 1 && cfg[2] == 1 && n < cfg[0] {
				return "KF-C02-tema-spurious-zero"
			}
			return ""
		},
	})
	// Trima(P): even: SMA(P/2, SMA(P/2+1, values)); odd: SMA((P+1)/2, SMA((P+1)/2, values)).
	reg(&Ind{
		Name: "Trima", In: "c", NOut: 1,
		Make: func(cfg []int) any {
			t := trend.NewTrima[float64]()
			t.Period = cfg[0]
			return t
		},
		Idle: func(inst any, cfg []int) int { return inst.(*trend.Trima[float64]).IdlePeriod() },
		Run: func(inst any, in []<-chan float64) []<-chan float64 {
			return one(inst.(*trend.Trima[float64]).Compute(in[0]))
		},
		Ref: func(cfg []int, in [][]float64, o, i int) float64 {
			outer, inner := tbTrimaPeriods(cfg[0])
			s := 0.0
			for j := i - outer + 1; j <= i; j++ {
				s += rSMA(in[0], inner, j)
			}
			return s / float64(outer)
		},
		Deg: [][2]int{{1, 0}},
	})
	// Trix(P): EMA3 = EMA_P(EMA_P(EMA_P(values))); TRIX = (EMA3 - previous EMA3) / previous EMA3.
	reg(&Ind{
		Name: "Trix", In: "c", NOut: 1,
		Make: func(cfg []int) any {
			t := trend.NewTrix[float64]()
			t.Period = cfg[0]
			return t
		},
		Idle: func(inst any, cfg []int) int { return inst.(*trend.Trix[float64]).IdlePeriod() },
		Run: func(inst any, in []<-chan float64) []<-chan float64 {
			return one(inst.(*trend.Trix[float64]).Compute(in[0]))
		},
		Ref: func(cfg []int, in [][]float64, o, i int) float64 {
			e3 := tbEMAChain(in[0], cfg[0], cfg[0], cfg[0])[2]
			return (e3[i] - e3[i-1]) / e3[i-1]
		},
		Deg: [][2]int{{0, 0}},
	})
	// Tsi(P1,P2): doc comment (defaults first=25, second=13):
	//   PCDS = Ema(13, Ema(25, Current-Prior)); APCDS = Ema(13, Ema(25, |Current-Prior|)); TSI = PCDS/APCDS*100
	// i.e. the FIRST smoothing (P1) is applied to the price change, the SECOND (P2) on top of it.
	reg(&Ind{
		Name: "Tsi", In: "c", NOut: 1,
		Make: func(cfg []int) any { return trend.NewTsiWith[float64](cfg[0], cfg[1]) },
		Idle: func(inst any, cfg []int) int { return inst.(*trend.Tsi[float64]).IdlePeriod() },
		Run: func(inst any, in []<-chan float64) []<-chan float64 {
			return one(inst.(*trend.Tsi[float64]).Compute(in[0]))
		},
		Ref: func(cfg []int, in [][]float64, o, i int) float64 {
			c := in[0]
			n := len(c)
			// d[j-1] = c_j - c_{j-1}, j = 1..n-1 (re-based by one position)
			d := make([]float64, 0, n)
			a := make([]float64, 0, n)
			for j := 1; j < n; j++ {
				d = append(d, c[j]-c[j-1])
				a = append(a, rAbs(c[j]-c[j-1]))
			}
			pcds := tbEMAChain(d, cfg[0], cfg[1])[1]
			apcds := tbEMAChain(a, cfg[0], cfg[1])[1]
			return pcds[i-1] / apcds[i-1] * 100
		},
		Deg: [][2]int{{0, 0}},
		// The code computes FirstSmoothing(SecondSmoothing(change)): P2 is applied
		// first, P1 second - the opposite nesting of the doc comment. The two
		// nestings differ (through the SMA seeding) unless the periods are equal
		// or one of them is 1 (EMA_1 is the identity).
		KF: func(cfg []int, n, o, k int) string {
			if cfg[0] != cfg[1] && cfg[0] != 1 && cfg[1] != 1 {
				return "KF-C01-tsi-smoothing-order"
			}
			return ""
		},
		// Before ad80b5e, n <= w (= P1+P2-1): both EMA chains have too few values and emit only
		// their spurious 0 (KF-C02-ema-spurious-zero); Divide then computes 0/0
		// and the output is ONE value (NaN) instead of none. In exact-real mode
		// the engine prunes this path ("div_by_constant_zero", outcome
		// infeasible); it is visible with `vdev -fp` and natively.
		KFLen: func(cfg []int, n int) string {
			if !tbEmaSeedFixed && n <= cfg[0]+cfg[1]-1 {
				return "KF-C02-tsi-short-input-nan"
			}
			return ""
		},
	})
	// TypicalPrice: (High + Low + Closing) / 3. No IdlePeriod method: warm-up 0 by the formula.
	reg(&Ind{
		Name: "TypicalPrice", In: "hlc", NOut: 1,
		Make: func(cfg []int) any { return trend.NewTypicalPrice[float64]() },
		Idle: func(inst any, cfg []int) int { return 0 },
		Run: func(inst any, in []<-chan float64) []<-chan float64 {
			return one(inst.(*trend.TypicalPrice[float64]).Compute(in[0], in[1], in[2]))
		},
		Ref: func(cfg []int, in [][]float64, o, i int) float64 {
			return (in[0][i] + in[1][i] + in[2][i]) / 3
		},
		Deg: [][2]int{{1, 0}},
	})
	// WeightedClose: (High + Low + Close*2) / 4.
	reg(&Ind{
		Name: "WeightedClose", In: "hlc", NOut: 1,
		Make: func(cfg []int) any { return trend.NewWeightedClose[float64]() },
		Idle: func(inst any, cfg []int) int { return inst.(*trend.WeightedClose[float64]).IdlePeriod() },
		Run: func(inst any, in []<-chan float64) []<-chan float64 {
			return one(inst.(*trend.WeightedClose[float64]).Compute(in[0], in[1], in[2]))
		},
		Ref: func(cfg []int, in [][]float64, o, i int) float64 {
			return (in[0][i] + in[1][i] + in[2][i]*2) / 4
		},
		Deg: [][2]int{{1, 0}},
	})
	// Vwma(P): Sum_P(Price*Volume) / Sum_P(Volume).
	reg(&Ind{
		Name: "Vwma", In: "cv", NOut: 1,
		Make: func(cfg []int) any {
			v := trend.NewVwma[float64]()
			v.Period = cfg[0]
			return v
		},
		Idle: func(inst any, cfg []int) int { return inst.(*trend.Vwma[float64]).IdlePeriod() },
		Run: func(inst any, in []<-chan float64) []<-chan float64 {
			return one(inst.(*trend.Vwma[float64]).Compute(in[0], in[1]))
		},
		Ref: func(cfg []int, in [][]float64, o, i int) float64 {
			c, v := in[0], in[1]
			p := cfg[0]
			num := 0.0
			for j := i - p + 1; j <= i; j++ {
				num += c[j] * v[j]
			}
			return num / rSum(v, p, i)
		},
		Deg: [][2]int{{1, 0}},
	})
	// Wma(P): doc comment read literally (Appendix A), see tbWMA.
	reg(&Ind{
		Name: "Wma", In: "x", NOut: 1,
		Make: func(cfg []int) any { return trend.NewWmaWith[float64](cfg[0]) },
		Idle: func(inst any, cfg []int) int { return inst.(*trend.Wma[float64]).IdlePeriod() },
		Run: func(inst any, in []<-chan float64) []<-chan float64 {
			return one(inst.(*trend.Wma[float64]).Compute(in[0]))
		},
		Ref: func(cfg []int, in [][]float64, o, i int) float64 { return tbWMA(in[0], cfg[0], i) },
		Deg: [][2]int{{1, 0}},
	})
}
