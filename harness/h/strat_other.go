package h

import (
	"fmt"

	"github.com/cinar/indicator/v2/asset"
	"github.com/cinar/indicator/v2/momentum"
	"github.com/cinar/indicator/v2/strategy"
	scompound "github.com/cinar/indicator/v2/strategy/compound"
	smomentum "github.com/cinar/indicator/v2/strategy/momentum"
	strend "github.com/cinar/indicator/v2/strategy/trend"
	svolatility "github.com/cinar/indicator/v2/strategy/volatility"
	svolume "github.com/cinar/indicator/v2/strategy/volume"
	"github.com/cinar/indicator/v2/trend"
	"github.com/cinar/indicator/v2/volatility"
	"github.com/cinar/indicator/v2/volume"
)

// Strategy table entries for strategy/momentum (AwesomeOscillator, StochasticRsi,
// TripleRsi), strategy/volatility (BollingerBands, SuperTrend), strategy/volume
// (ChaikinMoneyFlow, EaseOfMovement, ForceIndex, MoneyFlowIndex,
// NegativeVolumeIndex, WeightedAveragePrice), strategy (BuyAndHold) and
// strategy/compound (MacdRsi).
//
// Every Rule restates the strategy's DOC COMMENT (fields -> indicator -> test);
// the indicator is a FRESH real instance carrying the same periods.

// ---- helpers (prefix sc) ----

// scSign: "crosses above 0 -> Buy, crosses below 0 -> Sell" read on the level
// (Appendix B: > 0 / < 0); a value of exactly 0 is a zero crossing (exempt).
func scSign(v float64) (strategy.Action, bool) {
	if v > 0 {
		return strategy.Buy, v == 0
	}
	if v < 0 {
		return strategy.Sell, v == 0
	}
	return strategy.Hold, v == 0
}

// scSignRule applies scSign to an aligned series.
func scSignRule(vals []float64, w int) ([]strategy.Action, []bool) {
	return decide(len(vals), w, func(i int) (strategy.Action, bool) { return scSign(vals[i]) })
}

// scLevels: Buy when v <= buyAt, Sell when v >= sellAt (Buy tested first, as in the Rsi entry).
func scLevels(vals []float64, w int, buyAt, sellAt float64) ([]strategy.Action, []bool) {
	return decide(len(vals), w, func(i int) (strategy.Action, bool) {
		if vals[i] <= buyAt {
			return strategy.Buy, false
		}
		if vals[i] >= sellAt {
			return strategy.Sell, false
		}
		return strategy.Hold, false
	})
}

func scActAt(a []strategy.Action, i int) strategy.Action {
	if i < len(a) {
		return a[i]
	}
	return strategy.Hold
}

// scDenorm is strategy.DenormalizeActions in slice code: Holds until the first
// Buy/Sell, afterwards the standing (last non-Hold) recommendation.
func scDenorm(a []strategy.Action, n int) []strategy.Action {
	out := make([]strategy.Action, n)
	last := strategy.Hold
	for i := 0; i < n; i++ {
		if x := scActAt(a, i); x != strategy.Hold {
			last = x
		}
		out[i] = last
	}
	return out
}

// scFreshMa builds a fresh moving average with the same period as ma. Hma keeps
// its periods unexported: the period is recovered from its (strictly increasing)
// idle period.
func scFreshMa(ma trend.Ma[float64]) trend.Ma[float64] {
	switch m := ma.(type) {
	case *trend.Sma[float64]:
		return trend.NewSmaWithPeriod[float64](m.Period)
	case *trend.Ema[float64]:
		e := trend.NewEmaWithPeriod[float64](m.Period)
		e.Smoothing = m.Smoothing
		return e
	case *trend.Hma[float64]:
		for p := 1; p <= 512; p++ {
			if h := trend.NewHmaWithPeriod[float64](p); h.IdlePeriod() == m.IdlePeriod() {
				return h
			}
		}
	}
	panic("scFreshMa: unsupported moving average")
}

// ---- per strategy: the documented indicator on the documented fields, aligned ----

func scAo(s strategy.Strategy, snaps []*asset.Snapshot) ([]float64, int) {
	a := s.(*smomentum.AwesomeOscillatorStrategy).AwesomeOscillator
	ind := momentum.NewAwesomeOscillator[float64]()
	ind.ShortSma.Period, ind.LongSma.Period = a.ShortSma.Period, a.LongSma.Period
	w := ind.IdlePeriod()
	return pad(Collect1(ind.Compute(Src(fHigh(snaps), 0), Src(fLow(snaps), 0))), w, len(snaps)), w
}

func scStochRsi(s strategy.Strategy, snaps []*asset.Snapshot) ([]float64, int) {
	a := s.(*smomentum.StochasticRsiStrategy).StochasticRsi
	ind := momentum.NewStochasticRsiWithPeriod[float64](a.Rsi.Rma.Period)
	ind.Min.Period, ind.Max.Period = a.Min.Period, a.Max.Period
	w := ind.IdlePeriod()
	return pad(Collect1(ind.Compute(Src(fClose(snaps), 0))), w, len(snaps)), w
}

// scTripleRsi returns rsi (aligned at rsi.w), sma (aligned at sma.w) and both warm-ups.
func scTripleRsi(s strategy.Strategy, snaps []*asset.Snapshot) (rsi, sma []float64, rw, w int) {
	t := s.(*smomentum.TripleRsiStrategy)
	ri := momentum.NewRsiWithPeriod[float64](t.Rsi.Rma.Period)
	si := trend.NewSmaWithPeriod[float64](t.Sma.Period)
	rw, w = ri.IdlePeriod(), si.IdlePeriod()
	n := len(snaps)
	rsi = pad(Collect1(ri.Compute(Src(fClose(snaps), 0))), rw, n)
	sma = pad(Collect1(si.Compute(Src(fClose(snaps), 0))), w, n)
	return
}

func scBb(s strategy.Strategy, snaps []*asset.Snapshot) (up, mid, lo []float64, w int) {
	b := s.(*svolatility.BollingerBandsStrategy).BollingerBands
	ind := volatility.NewBollingerBandsWithPeriod[float64](b.Period)
	w = ind.IdlePeriod()
	u, m, l := ind.Compute(Src(fClose(snaps), 0))
	outs := Collect(u, m, l)
	n := len(snaps)
	return pad(outs[0], w, n), pad(outs[1], w, n), pad(outs[2], w, n), w
}

func scSt(s strategy.Strategy, snaps []*asset.Snapshot) ([]float64, int) {
	a := s.(*svolatility.SuperTrendStrategy).SuperTrend
	ind := volatility.NewSuperTrendWithMa[float64](scFreshMa(a.Atr.Ma), a.Multiplier)
	w := ind.IdlePeriod()
	out := ind.Compute(Src(fHigh(snaps), 0), Src(fLow(snaps), 0), Src(fClose(snaps), 0))
	return pad(Collect1(out), w, len(snaps)), w
}

func scCmf(s strategy.Strategy, snaps []*asset.Snapshot) ([]float64, int) {
	a := s.(*svolume.ChaikinMoneyFlowStrategy).ChaikinMoneyFlow
	ind := volume.NewCmfWithPeriod[float64](a.Sum.Period)
	w := ind.IdlePeriod()
	out := ind.Compute(Src(fHigh(snaps), 0), Src(fLow(snaps), 0), Src(fClose(snaps), 0), Src(fVol(snaps), 0))
	return pad(Collect1(out), w, len(snaps)), w
}

func scEmv(s strategy.Strategy, snaps []*asset.Snapshot) ([]float64, int) {
	a := s.(*svolume.EaseOfMovementStrategy).EaseOfMovement
	ind := volume.NewEmvWithPeriod[float64](a.Sma.Period)
	w := ind.IdlePeriod()
	out := ind.Compute(Src(fHigh(snaps), 0), Src(fLow(snaps), 0), Src(fVol(snaps), 0))
	return pad(Collect1(out), w, len(snaps)), w
}

func scFi(s strategy.Strategy, snaps []*asset.Snapshot) ([]float64, int) {
	a := s.(*svolume.ForceIndexStrategy).ForceIndex
	ind := volume.NewFiWithPeriod[float64](a.Ema.Period)
	ind.Ema.Smoothing = a.Ema.Smoothing
	w := ind.IdlePeriod()
	out := ind.Compute(Src(fClose(snaps), 0), Src(fVol(snaps), 0))
	return pad(Collect1(out), w, len(snaps)), w
}

func scMfi(s strategy.Strategy, snaps []*asset.Snapshot) ([]float64, int) {
	a := s.(*svolume.MoneyFlowIndexStrategy).MoneyFlowIndex
	ind := volume.NewMfi[float64]()
	ind.Sum.Period = a.Sum.Period
	w := ind.IdlePeriod()
	out := ind.Compute(Src(fHigh(snaps), 0), Src(fLow(snaps), 0), Src(fClose(snaps), 0), Src(fVol(snaps), 0))
	return pad(Collect1(out), w, len(snaps)), w
}

// scNvi: NVI of (close, volume) and the EMA of the NVI series, both aligned at 1+ema.w.
func scNvi(s strategy.Strategy, snaps []*asset.Snapshot) (nvi, ema []float64, w int) {
	a := s.(*svolume.NegativeVolumeIndexStrategy)
	ni := volume.NewNvi[float64]()
	ni.Initial = a.NegativeVolumeIndex.Initial
	ei := trend.NewEmaWithPeriod[float64](a.NegativeVolumeIndexEma.Period)
	ei.Smoothing = a.NegativeVolumeIndexEma.Smoothing
	nw := ni.IdlePeriod()
	w = nw + ei.IdlePeriod()
	n := len(snaps)
	raw := Collect1(ni.Compute(Src(fClose(snaps), 0), Src(fVol(snaps), 0))) // raw[k] is NVI at position k+nw
	emas := Collect1(ei.Compute(Src(raw, 0)))                               // emas[k] is at position k+w
	return pad(raw, nw, n), pad(emas, w, n), w
}

func scVwap(s strategy.Strategy, snaps []*asset.Snapshot) ([]float64, int) {
	a := s.(*svolume.WeightedAveragePriceStrategy).WeightedAveragePrice
	ind := volume.NewVwapWithPeriod[float64](a.Sum.Period)
	w := ind.IdlePeriod()
	out := ind.Compute(Src(fClose(snaps), 0), Src(fVol(snaps), 0))
	return pad(Collect1(out), w, len(snaps)), w
}

func scMacdRsiWarm(m *scompound.MacdRsiStrategy) int {
	return imax(m.MacdStrategy.Macd.IdlePeriod(), m.RsiStrategy.Rsi.IdlePeriod())
}

func init() {
	// Awesome Oscillator strategy: highs, lows -> AO(short SMA, long SMA) of the median price
	// (indicator doc: "bullishness above and bearishness below" the zero line);
	// Buy when ao > 0, Sell when ao < 0 (Appendix B). cfg: [0] short SMA period, [1] long SMA period (short <= long).
	regS(&Strat{
		Name: "AwesomeOscillator",
		Make: func(cfg []int, dflt bool) strategy.Strategy {
			s := smomentum.NewAwesomeOscillatorStrategy()
			if !dflt {
				s.AwesomeOscillator.ShortSma.Period = cfg[0]
				s.AwesomeOscillator.LongSma.Period = cfg[1]
			}
			return s
		},
		Warm: func(s strategy.Strategy) int {
			return s.(*smomentum.AwesomeOscillatorStrategy).AwesomeOscillator.IdlePeriod()
		},
		Rule: func(s strategy.Strategy, snaps []*asset.Snapshot) ([]strategy.Action, []bool) {
			ao, w := scAo(s, snaps)
			return scSignRule(ao, w)
		},
		Cols: func(s strategy.Strategy, snaps []*asset.Snapshot) map[string][]float64 {
			ao, _ := scAo(s, snaps)
			return map[string][]float64{"AO": ao}
		},
	})

	// Stochastic RSI strategy: closings -> StochasticRsi; "BuyAt: the level at which a Buy action is
	// generated", "SellAt: the level at which a Sell action is generated": Buy when v <= BuyAt, Sell when
	// v >= SellAt (Appendix B). With the default levels (BuyAt 0.8 > SellAt 0.2) both tests overlap on
	// [0.2, 0.8]; the doc does not order them, this entry tests Buy first like the Rsi entry.
	// cfg: [0] RSI period, [1] moving min / moving max window.
	regS(&Strat{
		Name: "StochasticRsi",
		Make: func(cfg []int, dflt bool) strategy.Strategy {
			s := smomentum.NewStochasticRsiStrategy()
			if !dflt {
				s.StochasticRsi.Rsi.Rma.Period = cfg[0]
				s.StochasticRsi.Min.Period = cfg[1]
				s.StochasticRsi.Max.Period = cfg[1]
			}
			return s
		},
		Warm: func(s strategy.Strategy) int {
			return s.(*smomentum.StochasticRsiStrategy).StochasticRsi.IdlePeriod()
		},
		Rule: func(s strategy.Strategy, snaps []*asset.Snapshot) ([]strategy.Action, []bool) {
			st := s.(*smomentum.StochasticRsiStrategy)
			v, w := scStochRsi(s, snaps)
			return scLevels(v, w, st.BuyAt, st.SellAt)
		},
		Cols: func(s strategy.Strategy, snaps []*asset.Snapshot) map[string][]float64 {
			v, _ := scStochRsi(s, snaps)
			return map[string][]float64{"Stochastic RSI": v}
		},
	})

	// Triple RSI strategy (doc, with the numbers replaced by the fields they default):
	//   Buy : RSI < BuyAt (30)
	//         and the RSI reading is down for the DownDays-th (3rd) period in a row:
	//             rsi[i-k] < rsi[i-k-1] for k = 0..DownDays-1
	//         and the RSI reading was below BuySignalAt (60) DownDays (three) trading periods ago: rsi[i-DownDays] < BuySignalAt
	//         and close > SMA.
	//   Sell: RSI > SellAt (50) ("crosses above", read on the level as Appendix B).
	// The doc ties "3rd period in a row" and "three trading periods ago" to the same number; this entry ties
	// both to DownDays (as the code does). Positions whose RSI history (i-DownDays >= rsi.w) is not
	// available cannot satisfy the Buy conditions: Hold unless Sell. Ties (a compared pair exactly equal) are exempt.
	// Warm-up: the strategy's IdlePeriod doc = Sma.IdlePeriod() (needs sma.w >= rsi.w).
	// cfg: [0] RSI period, [1] SMA period, [2] DownDays.
	regS(&Strat{
		Name: "TripleRsi",
		Make: func(cfg []int, dflt bool) strategy.Strategy {
			if dflt {
				return smomentum.NewTripleRsiStrategy()
			}
			return smomentum.NewTripleRsiStrategyWith(cfg[0], cfg[1], cfg[2],
				smomentum.DefaultTripleRsiStrategyBuySignalAt, smomentum.DefaultTripleRsiStrategyBuyAt, smomentum.DefaultTripleRsiStrategySellAt)
		},
		Warm: func(s strategy.Strategy) int { return s.(*smomentum.TripleRsiStrategy).Sma.IdlePeriod() },
		// Findings (H_C06 TripleRsi 2 3 2 dn, 2 4 3 dn):
		//  ring-refill: Compute fills its DownDays ring only from position w on (the RSI values before w are
		//    skipped), so positions w .. w+DownDays-2 are unconditionally Hold, even when RSI > SellAt (doc: Sell).
		//  down-days: from w+DownDays-1 on the down-days test is inverted (it returns Hold when the OLDER reading is
		//    greater, i.e. it demands a non-falling RSI), it compares only DownDays readings (DownDays-1 steps) and
		//    "DownDays periods ago" reads ring.At(0) = rsi[i-DownDays+1].
		KFRule: func(cfg []int, n, i int) string {
			if w := cfg[1] - 1; i < w+cfg[2]-1 {
				return "KF-C06-TripleRsi-ring-refill"
			}
			return "KF-C06-TripleRsi-down-days"
		},
		Rule: func(s strategy.Strategy, snaps []*asset.Snapshot) ([]strategy.Action, []bool) {
			t := s.(*smomentum.TripleRsiStrategy)
			rsi, sma, rw, w := scTripleRsi(s, snaps)
			cl := fClose(snaps)
			dd := t.DownDays
			return decide(len(snaps), w, func(i int) (strategy.Action, bool) {
				hist := i-dd >= rw
				tie := rsi[i] == t.SellAt || rsi[i] == t.BuyAt || cl[i] == sma[i]
				buy := rsi[i] < t.BuyAt && cl[i] > sma[i]
				if hist {
					for k := 0; k < dd; k++ {
						tie = tie || rsi[i-k] == rsi[i-k-1]
						buy = buy && rsi[i-k] < rsi[i-k-1]
					}
					tie = tie || rsi[i-dd] == t.BuySignalAt
					buy = buy && rsi[i-dd] < t.BuySignalAt
				}
				if rsi[i] > t.SellAt {
					return strategy.Sell, tie
				}
				if hist && buy {
					return strategy.Buy, tie
				}
				return strategy.Hold, tie
			})
		},
		Cols: func(s strategy.Strategy, snaps []*asset.Snapshot) map[string][]float64 {
			t := s.(*smomentum.TripleRsiStrategy)
			rsi, sma, _, _ := scTripleRsi(s, snaps)
			return map[string][]float64{
				fmt.Sprintf("RSI(%d)", t.Rsi.Rma.Period): rsi,
				fmt.Sprintf("SMA(%d)", t.Sma.Period):     sma,
			}
		},
	})

	// Bollinger Bands strategy (doc): closings -> BollingerBands(P); "a closing value crossing above the upper
	// band suggests a Buy, crossing below the lower band a Sell": Buy when close > upper, Sell when lower > close.
	// cfg: [0] period.
	regS(&Strat{
		Name: "BollingerBands",
		Make: func(cfg []int, dflt bool) strategy.Strategy {
			s := svolatility.NewBollingerBandsStrategy()
			if !dflt {
				s.BollingerBands.Period = cfg[0]
			}
			return s
		},
		Warm: func(s strategy.Strategy) int {
			return s.(*svolatility.BollingerBandsStrategy).BollingerBands.IdlePeriod()
		},
		Rule: func(s strategy.Strategy, snaps []*asset.Snapshot) ([]strategy.Action, []bool) {
			up, _, lo, w := scBb(s, snaps)
			cl := fClose(snaps)
			return decide(len(snaps), w, func(i int) (strategy.Action, bool) {
				exempt := cl[i] == up[i] || cl[i] == lo[i]
				if cl[i] > up[i] {
					return strategy.Buy, exempt
				}
				if lo[i] > cl[i] {
					return strategy.Sell, exempt
				}
				return strategy.Hold, exempt
			})
		},
		Cols: func(s strategy.Strategy, snaps []*asset.Snapshot) map[string][]float64 {
			up, mid, lo, _ := scBb(s, snaps)
			return map[string][]float64{"Upper": up, "Middle": mid, "Lower": lo}
		},
	})

	// Super Trend strategy (doc): highs, lows, closings -> SuperTrend(ATR(MA), multiplier); "a closing value
	// crossing above the Super Trend suggests a Buy, crossing below a Sell": Buy when st < close, Sell when st > close.
	// cfg: [0] period of NewSuperTrendWithPeriod (HMA(period) inside the ATR); the multiplier stays at its default.
	regS(&Strat{
		Name: "SuperTrend",
		Make: func(cfg []int, dflt bool) strategy.Strategy {
			if dflt {
				return svolatility.NewSuperTrendStrategy()
			}
			return svolatility.NewSuperTrendStrategyWith(
				volatility.NewSuperTrendWithPeriod[float64](cfg[0], volatility.DefaultSuperTrendMultiplier))
		},
		Warm: func(s strategy.Strategy) int { return s.(*svolatility.SuperTrendStrategy).SuperTrend.IdlePeriod() },
		Rule: func(s strategy.Strategy, snaps []*asset.Snapshot) ([]strategy.Action, []bool) {
			st, w := scSt(s, snaps)
			cl := fClose(snaps)
			return decide(len(snaps), w, func(i int) (strategy.Action, bool) {
				exempt := st[i] == cl[i]
				if st[i] < cl[i] {
					return strategy.Buy, exempt
				}
				if st[i] > cl[i] {
					return strategy.Sell, exempt
				}
				return strategy.Hold, exempt
			})
		},
		Cols: func(s strategy.Strategy, snaps []*asset.Snapshot) map[string][]float64 {
			st, _ := scSt(s, snaps)
			return map[string][]float64{"Super Trend": st}
		},
	})

	// Chaikin Money Flow strategy (doc): highs, lows, closings, volumes -> CMF(P); "Buy when it crosses above 0,
	// Sell when it crosses below 0". cfg: [0] period.
	regS(&Strat{
		Name: "ChaikinMoneyFlow",
		Make: func(cfg []int, dflt bool) strategy.Strategy {
			if dflt {
				return svolume.NewChaikinMoneyFlowStrategy()
			}
			return svolume.NewChaikinMoneyFlowStrategyWith(cfg[0])
		},
		Warm: func(s strategy.Strategy) int {
			return s.(*svolume.ChaikinMoneyFlowStrategy).ChaikinMoneyFlow.IdlePeriod()
		},
		Rule: func(s strategy.Strategy, snaps []*asset.Snapshot) ([]strategy.Action, []bool) {
			v, w := scCmf(s, snaps)
			return scSignRule(v, w)
		},
		Cols: func(s strategy.Strategy, snaps []*asset.Snapshot) map[string][]float64 {
			v, _ := scCmf(s, snaps)
			return map[string][]float64{"Chaikin Money Flow": v}
		},
	})

	// Ease of Movement strategy (doc): highs, lows, volumes -> EMV(P); "Buy when it crosses above 0, Sell when it
	// crosses below 0". cfg: [0] period.
	regS(&Strat{
		Name: "EaseOfMovement",
		Make: func(cfg []int, dflt bool) strategy.Strategy {
			if dflt {
				return svolume.NewEaseOfMovementStrategy()
			}
			return svolume.NewEaseOfMovementStrategyWith(cfg[0])
		},
		Warm: func(s strategy.Strategy) int {
			return s.(*svolume.EaseOfMovementStrategy).EaseOfMovement.IdlePeriod()
		},
		Rule: func(s strategy.Strategy, snaps []*asset.Snapshot) ([]strategy.Action, []bool) {
			v, w := scEmv(s, snaps)
			return scSignRule(v, w)
		},
		Cols: func(s strategy.Strategy, snaps []*asset.Snapshot) map[string][]float64 {
			v, _ := scEmv(s, snaps)
			return map[string][]float64{"Ease of Movement": v}
		},
	})

	// Force Index strategy (doc): closings, volumes -> FI(P); "Buy when it crosses above zero, Sell when it crosses
	// below zero". cfg: [0] period.
	regS(&Strat{
		Name: "ForceIndex",
		Make: func(cfg []int, dflt bool) strategy.Strategy {
			if dflt {
				return svolume.NewForceIndexStrategy()
			}
			return svolume.NewForceIndexStrategyWith(cfg[0])
		},
		Warm: func(s strategy.Strategy) int { return s.(*svolume.ForceIndexStrategy).ForceIndex.IdlePeriod() },
		Rule: func(s strategy.Strategy, snaps []*asset.Snapshot) ([]strategy.Action, []bool) {
			v, w := scFi(s, snaps)
			return scSignRule(v, w)
		},
		Cols: func(s strategy.Strategy, snaps []*asset.Snapshot) map[string][]float64 {
			v, _ := scFi(s, snaps)
			return map[string][]float64{"Force Index": v}
		},
	})

	// Money Flow Index strategy (doc): highs, lows, closings, volumes -> MFI(P); "Sell when it crosses over 80
	// (SellAt), Buy when it crosses below 20 (BuyAt)": Buy when mfi <= BuyAt, Sell when mfi >= SellAt (Appendix B).
	// cfg: [0] period of the moving sums.
	regS(&Strat{
		Name: "MoneyFlowIndex",
		Make: func(cfg []int, dflt bool) strategy.Strategy {
			s := svolume.NewMoneyFlowIndexStrategy()
			if !dflt {
				s.MoneyFlowIndex.Sum.Period = cfg[0]
			}
			return s
		},
		Warm: func(s strategy.Strategy) int {
			return s.(*svolume.MoneyFlowIndexStrategy).MoneyFlowIndex.IdlePeriod()
		},
		Rule: func(s strategy.Strategy, snaps []*asset.Snapshot) ([]strategy.Action, []bool) {
			m := s.(*svolume.MoneyFlowIndexStrategy)
			v, w := scMfi(s, snaps)
			return scLevels(v, w, m.BuyAt, m.SellAt)
		},
		Cols: func(s strategy.Strategy, snaps []*asset.Snapshot) map[string][]float64 {
			v, _ := scMfi(s, snaps)
			return map[string][]float64{"Money Flow Index": v}
		},
	})

	// Negative Volume Index strategy (doc): closings, volumes -> NVI, EMA(P) of the NVI; "Buy when it crosses
	// below its EMA, Sell when it crosses above its EMA, Hold otherwise": Buy when nvi < ema, Sell when nvi > ema.
	// Warm-up: nvi.w + ema.w = 1 + (P-1). cfg: [0] EMA period.
	regS(&Strat{
		Name: "NegativeVolumeIndex",
		Make: func(cfg []int, dflt bool) strategy.Strategy {
			if dflt {
				return svolume.NewNegativeVolumeIndexStrategy()
			}
			return svolume.NewNegativeVolumeIndexStrategyWith(cfg[0])
		},
		Warm: func(s strategy.Strategy) int {
			n := s.(*svolume.NegativeVolumeIndexStrategy)
			return n.NegativeVolumeIndex.IdlePeriod() + n.NegativeVolumeIndexEma.IdlePeriod()
		},
		Rule: func(s strategy.Strategy, snaps []*asset.Snapshot) ([]strategy.Action, []bool) {
			nvi, ema, w := scNvi(s, snaps)
			return decide(len(snaps), w, func(i int) (strategy.Action, bool) {
				exempt := nvi[i] == ema[i]
				if nvi[i] < ema[i] {
					return strategy.Buy, exempt
				}
				if nvi[i] > ema[i] {
					return strategy.Sell, exempt
				}
				return strategy.Hold, exempt
			})
		},
		Cols: func(s strategy.Strategy, snaps []*asset.Snapshot) map[string][]float64 {
			nvi, ema, _ := scNvi(s, snaps)
			return map[string][]float64{"NVI": nvi, "NVI EMA": ema}
		},
	})

	// Weighted Average Price strategy (doc): closings, volumes -> VWAP(P); "Buy when the closing crosses below the
	// VWAP, Sell when the closing crosses above the VWAP, Hold otherwise": Buy when vwap > close, Sell when vwap < close.
	// cfg: [0] period.
	regS(&Strat{
		Name: "WeightedAveragePrice",
		Make: func(cfg []int, dflt bool) strategy.Strategy {
			if dflt {
				return svolume.NewWeightedAveragePriceStrategy()
			}
			return svolume.NewWeightedAveragePriceStrategyWith(cfg[0])
		},
		Warm: func(s strategy.Strategy) int {
			return s.(*svolume.WeightedAveragePriceStrategy).WeightedAveragePrice.IdlePeriod()
		},
		Rule: func(s strategy.Strategy, snaps []*asset.Snapshot) ([]strategy.Action, []bool) {
			vw, w := scVwap(s, snaps)
			cl := fClose(snaps)
			return decide(len(snaps), w, func(i int) (strategy.Action, bool) {
				exempt := vw[i] == cl[i]
				if vw[i] > cl[i] {
					return strategy.Buy, exempt
				}
				if vw[i] < cl[i] {
					return strategy.Sell, exempt
				}
				return strategy.Hold, exempt
			})
		},
		Cols: func(s strategy.Strategy, snaps []*asset.Snapshot) map[string][]float64 {
			vw, _ := scVwap(s, snaps)
			return map[string][]float64{"VWAP": vw}
		},
	})

	// Buy and hold strategy (doc): "acquiring and indefinitely retaining an asset": Buy at position 0, Hold
	// afterwards; no warm-up, no periods (cfg ignored).
	regS(&Strat{
		Name: "BuyAndHold",
		Make: func(cfg []int, dflt bool) strategy.Strategy { return strategy.NewBuyAndHoldStrategy() },
		Warm: func(s strategy.Strategy) int { return 0 },
		Rule: func(s strategy.Strategy, snaps []*asset.Snapshot) ([]strategy.Action, []bool) {
			return decide(len(snaps), 0, func(i int) (strategy.Action, bool) {
				if i == 0 {
					return strategy.Buy, false
				}
				return strategy.Hold, false
			})
		},
	})

	// MACD-RSI strategy: acts when the standing (denormalised) recommendations of the MACD strategy and of the RSI
	// strategy agree, Hold otherwise. Warm-up: max of the two wrapped strategies' warm-ups.
	// cfg: [0],[1],[2] = the MACD strategy's three EMA periods (fast, slow, signal; through the exported
	// MacdStrategy field); the strategy has a fourth period and only three slots: cfg[2] is ALSO the RSI period
	// (through RsiStrategy.Rsi.Rma.Period), so that either wrapped warm-up can dominate, e.g. (1,2,2): macd.w 2,
	// rsi.w 2; (2,3,2): macd.w 3 > rsi.w 2; (1,1,3): macd.w 2 < rsi.w 3. The RSI levels keep the defaults (30 / 70).
	regS(&Strat{
		Name: "MacdRsi",
		Make: func(cfg []int, dflt bool) strategy.Strategy {
			s := scompound.NewMacdRsiStrategy()
			if !dflt {
				s.MacdStrategy = strend.NewMacdStrategyWith(cfg[0], cfg[1], cfg[2])
				s.RsiStrategy.Rsi.Rma.Period = cfg[2]
			}
			return s
		},
		Warm: func(s strategy.Strategy) int { return scMacdRsiWarm(s.(*scompound.MacdRsiStrategy)) },
		Rule: func(s strategy.Strategy, snaps []*asset.Snapshot) ([]strategy.Action, []bool) {
			m := s.(*scompound.MacdRsiStrategy)
			mm := m.MacdStrategy.Macd
			ms := strend.NewMacdStrategyWith(mm.Ema1.Period, mm.Ema2.Period, mm.Ema3.Period)
			rs := smomentum.NewRsiStrategyWith(m.RsiStrategy.BuyAt, m.RsiStrategy.SellAt)
			rs.Rsi.Rma.Period = m.RsiStrategy.Rsi.Rma.Period
			n := len(snaps)
			md := scDenorm(RunStrat(ms, snaps, 0), n)
			rd := scDenorm(RunStrat(rs, snaps, 0), n)
			return decide(n, scMacdRsiWarm(m), func(i int) (strategy.Action, bool) {
				if md[i] == rd[i] {
					return md[i], false
				}
				return strategy.Hold, false
			})
		},
		Cols: func(s strategy.Strategy, snaps []*asset.Snapshot) map[string][]float64 {
			m := s.(*scompound.MacdRsiStrategy)
			mm := m.MacdStrategy.Macd
			mi := trend.NewMacdWithPeriod[float64](mm.Ema1.Period, mm.Ema2.Period, mm.Ema3.Period)
			ri := momentum.NewRsiWithPeriod[float64](m.RsiStrategy.Rsi.Rma.Period)
			n := len(snaps)
			a, b := mi.Compute(Src(fClose(snaps), 0))
			outs := Collect(a, b)
			rsi := Collect1(ri.Compute(Src(fClose(snaps), 0)))
			return map[string][]float64{
				"MACD":   pad(outs[0], mi.IdlePeriod(), n),
				"Signal": pad(outs[1], mi.IdlePeriod(), n),
				"RSI":    pad(rsi, ri.IdlePeriod(), n),
			}
		},
	})
}
