package h

import (
	"github.com/cinar/indicator/v2/trend"
	"github.com/cinar/indicator/v2/volatility"
)

// Entries <Name>F: the same indicators configured the other documented way - the
// default constructor first, then the exported Period field (the "WithPeriod"
// constructors and the field must mean the same thing).
func init() {
	fieldVariant("Sma", func(p int) any { x := trend.NewSma[float64](); x.Period = p; return x })
	fieldVariant("Ema", func(p int) any { x := trend.NewEma[float64](); x.Period = p; return x })
	fieldVariant("Cci", func(p int) any { x := trend.NewCci[float64](); x.Period = p; return x })
	fieldVariant("MovingMax", func(p int) any { x := trend.NewMovingMax[float64](); x.Period = p; return x })
	fieldVariant("MovingMin", func(p int) any { x := trend.NewMovingMin[float64](); x.Period = p; return x })
	fieldVariant("MovingSum", func(p int) any { x := trend.NewMovingSum[float64](); x.Period = p; return x })
	fieldVariant("Rma", func(p int) any { x := trend.NewRma[float64](); x.Period = p; return x })
	fieldVariant("Smma", func(p int) any { x := trend.NewSmma[float64](); x.Period = p; return x })
	fieldVariant("BollingerBands", func(p int) any { x := volatility.NewBollingerBands[float64](); x.Period = p; return x })
	fieldVariant("MovingStd", func(p int) any { x := volatility.NewMovingStd[float64](); x.Period = p; return x })
}

func fieldVariant(base string, mk func(p int) any) {
	b := *Lookup(base)
	b.Name = base + "F"
	b.Make = func(cfg []int) any { return mk(cfg[0]) }
	reg(&b)
}
