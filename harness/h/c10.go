package h

import (
	"errors"
	"io/fs"
	"os"
	"path/filepath"
	"strings"
	"sync"

	"github.com/cinar/indicator/v2/asset"
	"github.com/cinar/indicator/v2/helper"
	"verif/harness/vrt"
)

// ---- file-table model standing in for the CSV layer (symbolic run only) ----
// Contract assumed of helper.ReadFromCsvFile / AppendOrWriteToCsvFile / os.ReadDir
// (their own behaviour is C11's subject): a file holds the rows written to it in
// order; reading a missing file is an error; appending creates the file.

type fileTable struct {
	names []string
	rows  map[string][]*asset.Snapshot
}

type fakeDirEntry struct{ name string }

func (f fakeDirEntry) Name() string               { return f.name }
func (f fakeDirEntry) IsDir() bool                { return false }
func (f fakeDirEntry) Type() fs.FileMode          { return 0 }
func (f fakeDirEntry) Info() (fs.FileInfo, error) { return nil, errors.New("no info") }

func installFileStubs(ft *fileTable) {
	vrt.Stub("github.com/cinar/indicator/v2/helper.ReadFromCsvFile", func(fileName string, hasHeader bool) (<-chan *asset.Snapshot, error) {
		rows, ok := ft.rows[fileName]
		if !ok {
			return nil, errors.New("open: no such file")
		}
		// rows are re-materialised on every read, like parsing a file
		cp := make([]*asset.Snapshot, len(rows))
		for i, r := range rows {
			c := *r
			cp[i] = &c
		}
		return helper.SliceToChan(cp), nil
	})
	vrt.Stub("github.com/cinar/indicator/v2/helper.AppendOrWriteToCsvFile", func(fileName string, hasHeader bool, rows <-chan *asset.Snapshot) error {
		if _, ok := ft.rows[fileName]; !ok {
			ft.names = append(ft.names, fileName)
			ft.rows[fileName] = nil
		}
		for r := range rows {
			c := *r
			ft.rows[fileName] = append(ft.rows[fileName], &c)
		}
		return nil
	})
	vrt.Stub("os.ReadDir", func(dir string) ([]os.DirEntry, error) {
		var out []os.DirEntry
		for _, n := range ft.names {
			if strings.HasPrefix(n, dir+"/") {
				out = append(out, fakeDirEntry{name: filepath.Base(n)})
			}
		}
		return out, nil
	})
}

// newRepo: kind 0 = in-memory, 1 = file system (CSV layer stubbed symbolically, real temp dir natively),
// 2 = SQL over the table model of c10_sql.go (database/sql stubbed symbolically, a minimal driver natively),
// 3 = file system with the REAL CSV layer over a record-level virtual file system (c10_vfs.go).
func newRepo(kind int) asset.Repository {
	if kind == 0 {
		return asset.NewInMemoryRepository()
	}
	if kind == 2 {
		return newSQLRepo()
	}
	if kind == 3 {
		theVFS = &vfsT{files: map[string]*vfile{}}
		installOSStubs(theVFS)
		repoDir = vrt.TempDir()
		return asset.NewFileSystemRepository(repoDir)
	}
	ft := &fileTable{rows: map[string][]*asset.Snapshot{}}
	installFileStubs(ft)
	return asset.NewFileSystemRepository(vrt.TempDir())
}

// repoDir is the base directory of the file-system repository built last.
var repoDir string

func symSnap(tag string, i int) *asset.Snapshot {
	d := vrt.Int("d"+tag, i)
	vrt.Assume(d >= 0 && d <= 9000)
	c := vrt.Float64("p"+tag, i)
	return &asset.Snapshot{Date: vrt.Day(d), Open: c, High: c, Low: c, Close: c, Volume: 1}
}

func sameSnaps(label string, step int, got []*asset.Snapshot, want []*asset.Snapshot) {
	vrt.AssertAt(label+"_len", step, len(got) == len(want))
	for i := range want {
		if i < len(got) {
			vrt.AssertAt(label+"_date", step*10+i, vrt.DayOf(got[i].Date) == vrt.DayOf(want[i].Date))
			vrt.AssertEqAt(label+"_close", step*10+i, got[i].Close, want[i].Close)
		}
	}
}

// H_C10: an operation history over two asset names against a map model.
// code: decimal digits, one per step (least significant first): digit%5 = operation
// (0 Append 1 snapshot, 1 Get, 2 GetSince, 3 LastDate, 4 Assets), digit/5 = asset (0 "aaa", 1 "v.cs").
// Step 0 is preceded by an Append of two snapshots to "aaa" when seed == 1, of three to "v.cs" when seed == 2,
// by the creation of a zero-length file for "aaa" when seed == 3 (kind 3 only).
func H_C10(kind, steps, code, seed int) {
	repo := newRepo(kind)
	names := []string{"aaa", "v.cs"} // the second name ends in characters of ".csv" (suffix handling)
	model := map[string][]*asset.Snapshot{}
	order := []string{}
	appendTo := func(name string, ss []*asset.Snapshot, step int) {
		err := repo.Append(name, Src(ss, 0))
		vrt.AssertAt("append_ok", step, err == nil)
		if _, ok := model[name]; !ok {
			order = append(order, name)
		}
		model[name] = append(model[name], ss...)
	}
	if seed == 1 {
		appendTo("aaa", []*asset.Snapshot{symSnap("s", 0), symSnap("s", 1)}, 99)
	}
	if seed == 2 {
		appendTo("v.cs", []*asset.Snapshot{symSnap("s", 0), symSnap("s", 1), symSnap("s", 2)}, 99)
	}
	if seed == 3 {
		// a zero-length file for "aaa" (registered by hand, or left over from a failed
		// append): the name is known and holds no snapshots
		touchFile(filepath.Join(repoDir, "aaa.csv"))
		model["aaa"] = nil
		order = append(order, "aaa")
	}
	for s := 0; s < steps; s++ {
		digit := code % 10
		code /= 10
		op, name := digit%5, names[digit/5]
		want, known := model[name]
		switch op {
		case 0:
			appendTo(name, []*asset.Snapshot{symSnap("a", s)}, s)
		case 1:
			c, err := repo.Get(name)
			if kind == 2 && !known {
				vrt.KnownFindingAt("KF-C10-sql-unknown-asset-no-error", "get_err_iff_unknown", s, err != nil)
			} else {
				vrt.AssertAt("get_err_iff_unknown", s, (err != nil) == !known)
			}
			if err == nil {
				sameSnaps("get", s, Collect1(c), want)
			}
		case 2:
			b := vrt.Int("bound", s)
			vrt.Assume(b >= 0 && b <= 9000)
			c, err := repo.GetSince(name, vrt.Day(b))
			if kind == 2 && !known {
				vrt.KnownFindingAt("KF-C10-sql-unknown-asset-no-error", "getsince_err_iff_unknown", s, err != nil)
			} else {
				vrt.AssertAt("getsince_err_iff_unknown", s, (err != nil) == !known)
			}
			if err == nil {
				var exp []*asset.Snapshot
				for _, x := range want {
					if vrt.DayOf(x.Date) >= b {
						exp = append(exp, x)
					}
				}
				sameSnaps("getsince", s, Collect1(c), exp)
			}
		case 3:
			d, err := repo.LastDate(name)
			vrt.AssertAt("lastdate_err_iff_none", s, (err != nil) == (len(want) == 0))
			if err == nil && len(want) > 0 {
				vrt.AssertAt("lastdate", s, vrt.DayOf(d) == vrt.DayOf(want[len(want)-1].Date))
			}
		case 4:
			as, err := repo.Assets()
			vrt.AssertAt("assets_ok", s, err == nil)
			vrt.AssertAt("assets_count", s, len(as) == len(order))
			for _, n := range order {
				found := false
				for _, a := range as {
					if a == n {
						found = true
					}
				}
				vrt.AssertAt("assets_has_"+n, s, found)
			}
		}
	}
	vrt.Reach("end")
}

// H_C10_Conc: two Append calls on the SAME asset are alive at the same time (each fed
// by its own producer), after n0 snapshots were appended sequentially. "An Append that
// has returned is visible to every later read": once both have returned, Get holds
// the n0 earlier snapshots first, then every snapshot of both calls exactly once,
// each call's snapshots in their order (the order between the two calls is free).
// Snapshots are told apart by distinct concrete dates.
//
// pace: 0 = both producers run freely (the interleaving is the scheduler's); 1 = the
// producer of call A hands over its first snapshot (if any) and then waits until call
// B has returned before it goes on; 2 = the same with A and B exchanged. The paced
// variants pin the interleaving down by channel synchronisation alone, so a
// counterexample replays deterministically in a native run.
func H_C10_Conc(kind, n0, n1, n2, pace int) {
	repo := newRepo(kind)
	mk := func(tag string, base, n int) []*asset.Snapshot {
		ss := make([]*asset.Snapshot, n)
		for i := range ss {
			c := vrt.Float64("p"+tag, i)
			ss[i] = &asset.Snapshot{Date: vrt.Day(base + i), Open: c, High: c, Low: c, Close: c, Volume: 1}
		}
		return ss
	}
	pre, a, b := mk("s", 0, n0), mk("a", 100, n1), mk("b", 200, n2)
	if n0 > 0 {
		vrt.Assert("append_ok_pre", repo.Append("aaa", Src(pre, 0)) == nil)
	}
	var wg sync.WaitGroup
	var errA, errB error
	aDone, bDone := make(chan struct{}), make(chan struct{})
	var srcA, srcB <-chan *asset.Snapshot
	if pace == 1 {
		srcA = gatedSrc(a, bDone)
	} else {
		srcA = Src(a, 0)
	}
	if pace == 2 {
		srcB = gatedSrc(b, aDone)
	} else {
		srcB = Src(b, 0)
	}
	wg.Add(2)
	go func() {
		defer wg.Done()
		errA = repo.Append("aaa", srcA)
		close(aDone)
	}()
	go func() {
		defer wg.Done()
		errB = repo.Append("aaa", srcB)
		close(bDone)
	}()
	wg.Wait()
	vrt.Assert("append_ok_a", errA == nil)
	vrt.Assert("append_ok_b", errB == nil)
	c, err := repo.Get("aaa")
	vrt.Assert("get_ok", err == nil)
	if err != nil {
		return
	}
	got := Collect1(c)
	vrt.Assert("all_visible_len", len(got) == n0+n1+n2)
	ia, ib := 0, 0
	for i, s := range got {
		if i < n0 {
			vrt.AssertAt("earlier_first", i, vrt.DayOf(s.Date) == i)
		}
	}
	// one pass per call, so that the checks do not depend on how the two calls interleaved
	for i, s := range got {
		if d := vrt.DayOf(s.Date); i >= n0 && d < 200 {
			vrt.AssertAt("call_a_in_order", ia, d == 100+ia)
			ia++
		}
	}
	for i, s := range got {
		if d := vrt.DayOf(s.Date); i >= n0 && d >= 200 {
			vrt.AssertAt("call_b_in_order", ib, d == 200+ib)
			ib++
		}
	}
	vrt.Assert("call_a_complete", ia == n1)
	vrt.Assert("call_b_complete", ib == n2)
	vrt.Reach("end")
}

// gatedSrc: a producer that hands over its first snapshot, waits for the gate, then
// sends the rest and closes.
func gatedSrc(ss []*asset.Snapshot, gate <-chan struct{}) <-chan *asset.Snapshot {
	c := make(chan *asset.Snapshot)
	go func() {
		for i, s := range ss {
			if i == 1 {
				<-gate
			}
			c <- s
		}
		if len(ss) <= 1 {
			<-gate
		}
		close(c)
	}()
	return c
}

// H_C10_Bulk: one Append call carrying n snapshots (batching, buffering and chunking
// logic sees sizes the short histories never reach), then Get, LastDate and a
// GetSince from the middle.
func H_C10_Bulk(kind, n int) {
	repo := newRepo(kind)
	ss := make([]*asset.Snapshot, n)
	for i := range ss {
		c := vrt.Float64("p", i%4) // four symbolic prices, reused
		ss[i] = &asset.Snapshot{Date: vrt.Day(i), Open: c, High: c, Low: c, Close: c, Volume: 1}
	}
	vrt.Assert("append_ok", repo.Append("aaa", Src(ss, 0)) == nil)
	c, err := repo.Get("aaa")
	vrt.Assert("get_ok", err == nil)
	if err == nil {
		got := Collect1(c)
		vrt.Assert("get_len", len(got) == n)
		for i := range got {
			if i < n && (vrt.DayOf(got[i].Date) != i) {
				vrt.AssertAt("get_date", i, false)
				break
			}
		}
	}
	d, err := repo.LastDate("aaa")
	vrt.Assert("lastdate_ok", err == nil)
	if err == nil {
		vrt.Assert("lastdate", vrt.DayOf(d) == n-1)
	}
	c, err = repo.GetSince("aaa", vrt.Day(n/2))
	vrt.Assert("getsince_ok", err == nil)
	if err == nil {
		vrt.Assert("getsince_len", len(Collect1(c)) == n-n/2)
	}
	vrt.Reach("end")
}

// H_C10_ConcRead: a read (op: 0 Assets, 1 Get, 2 GetSince, 3 LastDate on "aaa") runs
// while an Append creates a NEW asset "bbb": no data race, no panic, and the read of
// the untouched asset gives what it gave before.
func H_C10_ConcRead(kind, op int) {
	repo := newRepo(kind)
	pre := []*asset.Snapshot{{Date: vrt.Day(1), Close: vrt.Float64("p", 0), Volume: 1}, {Date: vrt.Day(2), Close: vrt.Float64("p", 1), Volume: 1}}
	vrt.Assert("append_ok_pre", repo.Append("aaa", Src(pre, 0)) == nil)
	nu := []*asset.Snapshot{{Date: vrt.Day(3), Close: vrt.Float64("q", 0), Volume: 1}}
	var wg sync.WaitGroup
	var errA error
	nAssets, nGot := 0, 0
	last := -1
	wg.Add(2)
	go func() {
		defer wg.Done()
		errA = repo.Append("bbb", Src(nu, 0))
	}()
	go func() {
		defer wg.Done()
		switch op {
		case 0:
			as, _ := repo.Assets()
			nAssets = len(as)
		case 1:
			if c, err := repo.Get("aaa"); err == nil {
				nGot = len(Collect1(c))
			}
		case 2:
			if c, err := repo.GetSince("aaa", vrt.Day(2)); err == nil {
				nGot = len(Collect1(c))
			}
		default:
			if d, err := repo.LastDate("aaa"); err == nil {
				last = vrt.DayOf(d)
			}
		}
	}()
	wg.Wait()
	vrt.Assert("append_ok", errA == nil)
	switch op {
	case 0:
		vrt.Assert("assets_one_or_two", nAssets == 1 || nAssets == 2)
	case 1:
		vrt.Assert("get_all", nGot == 2)
	case 2:
		vrt.Assert("getsince", nGot == 1)
	default:
		vrt.Assert("lastdate", last == 2)
	}
	as, err := repo.Assets()
	vrt.Assert("assets_after", err == nil && len(as) == 2)
	vrt.Reach("end")
}
