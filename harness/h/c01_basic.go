package h

import (
	"github.com/cinar/indicator/v2/trend"
	"verif/harness/vrt"
)

// H_C01_Sma: SMA(p) on n symbolic values equals the window mean.
func H_C01_Sma(p, n int) {
	xs := vrt.Floats("x", n)
	ind := trend.NewSmaWithPeriod[float64](p)
	out := Collect1(ind.Compute(Src(xs, 0)))
	w := ind.IdlePeriod()
	vrt.Assert("len", len(out) == imax(0, n-w))
	for k := range out {
		s := 0.0
		for j := k + w - p + 1; j <= k+w; j++ {
			s += xs[j]
		}
		vrt.AssertEqAt("formula", k, out[k], s/float64(p))
	}
	vrt.Reach("end")
}

// H_C01_MovingMax: window maximum.
func H_C01_MovingMax(p, n int) {
	xs := vrt.Floats("x", n)
	ind := trend.NewMovingMaxWithPeriod[float64](p)
	out := Collect1(ind.Compute(Src(xs, 0)))
	w := ind.IdlePeriod()
	vrt.Assert("len", len(out) == imax(0, n-w))
	for k := range out {
		m := xs[k+w-p+1]
		for j := k + w - p + 2; j <= k+w; j++ {
			if xs[j] > m {
				m = xs[j]
			}
		}
		vrt.AssertEqAt("formula", k, out[k], m)
	}
	vrt.Reach("end")
}
