package h

import (
	"fmt"
	"os"
	"reflect"
	"runtime"
	"testing"
	"time"

	"verif/harness/vrt"
)

// TestReplay runs one harness natively under the assignment of $VERIF_REPLAY
// and prints machine-readable result lines.
func TestReplay(t *testing.T) {
	path := os.Getenv("VERIF_REPLAY")
	if path == "" {
		t.Skip("VERIF_REPLAY not set")
	}
	defer vrt.Cleanup()
	doc, err := vrt.LoadAssignment(path)
	if err != nil {
		t.Fatal(err)
	}
	name, _ := doc["harness"].(string)
	fn, ok := Registry[name]
	if !ok {
		t.Fatalf("unknown harness %q", name)
	}
	var args []reflect.Value
	if nm, _ := doc["name"].(string); nm != "" {
		args = append(args, reflect.ValueOf(nm))
	}
	if ps, ok := doc["params"].([]interface{}); ok {
		for _, p := range ps {
			args = append(args, reflect.ValueOf(int(p.(float64))))
		}
	}
	if exp, _ := doc["expect"].(map[string]interface{}); exp != nil && exp["kind"] == "never" {
		label, _ := exp["label"].(string)
		seen := false
		premise := false
		for seed := uint64(1); seed <= 64 && !seen; seed++ {
			vrt.Reset()
			vrt.RandomSeed = seed
			reflect.ValueOf(fn).Call(args)
			if len(vrt.Notes) == 0 && vrt.Possibles[label] {
				seen = true
			}
			if p, ok := vrt.Premises[label]; !ok || p {
				premise = true
			}
		}
		if seen || !premise {
			fmt.Printf("VRT-NEVER %s observed-true\n", label)
		} else {
			fmt.Printf("VRT-NEVER %s never-true\n", label)
		}
		return
	}
	if exp, _ := doc["expect"].(map[string]interface{}); exp != nil && exp["kind"] == "observe" {
		vrt.Observe = true
	}
	time.Sleep(20 * time.Millisecond)
	base := runtime.NumGoroutine()
	done := make(chan string, 1)
	go func() {
		defer func() {
			if r := recover(); r != nil {
				done <- fmt.Sprintf("panic: %v", r)
			}
		}()
		reflect.ValueOf(fn).Call(args)
		done <- "done"
	}()
	outcome := ""
	select {
	case outcome = <-done:
	case <-time.After(5 * time.Second):
		outcome = "deadlock"
	}
	fmt.Printf("VRT-OUTCOME %s\n", outcome)
	if outcome == "done" {
		left := 0
		for i := 0; i < 40; i++ {
			runtime.Gosched()
			left = runtime.NumGoroutine() - base
			if left <= 0 {
				break
			}
			time.Sleep(10 * time.Millisecond)
		}
		if left > 0 {
			fmt.Printf("VRT-LEAK %d\n", left)
		}
	}
	for _, f := range vrt.Failures {
		fmt.Printf("VRT-FAIL %s\n", f)
	}
	for _, n := range vrt.Notes {
		fmt.Printf("VRT-NOTE %s\n", n)
	}
	for _, o := range vrt.Obs {
		fmt.Printf("VRT-OBS %s\n", o)
	}
	fmt.Printf("VRT-PASSED %d\n", vrt.Passed)
}
