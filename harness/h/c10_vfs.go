package h

import (
	"encoding/csv"
	"errors"
	"io"
	"io/fs"
	"os"
	"path/filepath"
	"strings"
	"time"

	"verif/harness/vrt"
)

// A record-level virtual file system under the REAL CSV layer (repository kind 3).
//
// Where kind 1 replaces helper.ReadFromCsvFile / AppendOrWriteToCsvFile as a whole,
// kind 3 lets the real helper.Csv code run - header handling, the append-or-create
// decision on os.Stat, column mapping by header names, the reader and writer loops -
// over stubs of os and encoding/csv that keep a file as a list of records:
//   os.Stat: existence and "size > 0 iff the file holds a record";
//   os.OpenFile: O_APPEND writes after the existing records, otherwise from the start
//     of a file that is created if missing (existing records are dropped: the library
//     only takes this path for missing or empty files);
//   os.Open: a missing file is an error; csv.Writer.Write appends a COPY of the
//   record; csv.Reader.Read follows the FieldsPerRecord contract.
// Values cross the text boundary as tokens (engine: serial.go). The native replay
// uses a real temporary directory and the real os / encoding/csv.

type vfile struct {
	records [][]string
}

type vfsT struct {
	files map[string]*vfile
	order []string
}

func (v *vfsT) create(path string) *vfile {
	f, ok := v.files[path]
	if !ok {
		f = &vfile{}
		v.files[path] = f
		v.order = append(v.order, path)
	}
	return f
}

type fakeFileInfo struct {
	name string
	size int64
}

func (f fakeFileInfo) Name() string       { return f.name }
func (f fakeFileInfo) Size() int64        { return f.size }
func (f fakeFileInfo) Mode() fs.FileMode  { return 0o600 }
func (f fakeFileInfo) ModTime() time.Time { return time.Time{} }
func (f fakeFileInfo) IsDir() bool        { return false }
func (f fakeFileInfo) Sys() any           { return nil }

type vreader struct {
	f   *vfile
	pos int
}

func installOSStubs(v *vfsT) {
	fileOf := map[*os.File]*vfile{}
	writerOf := map[*csv.Writer]*vfile{}
	readerOf := map[*csv.Reader]*vreader{}
	vrt.Stub("os.Stat", func(name string) (os.FileInfo, error) {
		f, ok := v.files[name]
		if !ok {
			return nil, fs.ErrNotExist
		}
		return fakeFileInfo{name: filepath.Base(name), size: int64(len(f.records))}, nil
	})
	vrt.Stub("os.OpenFile", func(name string, flag int, perm os.FileMode) (*os.File, error) {
		f, ok := v.files[name]
		if !ok {
			if flag&os.O_CREATE == 0 {
				return nil, fs.ErrNotExist
			}
			f = v.create(name)
		}
		if flag&os.O_APPEND == 0 {
			f.records = nil
		}
		h := new(os.File)
		fileOf[h] = f
		return h, nil
	})
	vrt.Stub("os.Open", func(name string) (*os.File, error) {
		f, ok := v.files[name]
		if !ok {
			return nil, fs.ErrNotExist
		}
		h := new(os.File)
		fileOf[h] = f
		return h, nil
	})
	vrt.Stub("(*os.File).Close", func(h *os.File) error { return nil })
	vrt.Stub("encoding/csv.NewWriter", func(w io.Writer) *csv.Writer {
		cw := new(csv.Writer)
		writerOf[cw] = fileOf[w.(*os.File)]
		return cw
	})
	vrt.Stub("(*encoding/csv.Writer).Write", func(w *csv.Writer, record []string) error {
		f := writerOf[w]
		f.records = append(f.records, append([]string(nil), record...))
		return nil
	})
	vrt.Stub("(*encoding/csv.Writer).Flush", func(w *csv.Writer) {})
	vrt.Stub("(*encoding/csv.Writer).Error", func(w *csv.Writer) error { return nil })
	vrt.Stub("encoding/csv.NewReader", func(r io.Reader) *csv.Reader {
		cr := new(csv.Reader)
		readerOf[cr] = &vreader{f: fileOf[r.(*os.File)]}
		return cr
	})
	vrt.Stub("(*encoding/csv.Reader).Read", func(r *csv.Reader) ([]string, error) {
		st := readerOf[r]
		if st.pos >= len(st.f.records) {
			return nil, io.EOF
		}
		rec := append([]string(nil), st.f.records[st.pos]...)
		st.pos++
		if r.FieldsPerRecord == 0 {
			r.FieldsPerRecord = len(rec)
		}
		if r.FieldsPerRecord > 0 && len(rec) != r.FieldsPerRecord {
			return rec, errors.New("record on line: wrong number of fields")
		}
		return rec, nil
	})
	vrt.Stub("os.ReadDir", func(dir string) ([]os.DirEntry, error) {
		var out []os.DirEntry
		for _, n := range v.order {
			if strings.HasPrefix(n, dir+"/") {
				out = append(out, fakeDirEntry{name: filepath.Base(n)})
			}
		}
		return out, nil
	})
}

// theVFS is the file system of the repository built last (symbolic run).
var theVFS *vfsT

// touchFile creates a zero-length file (an asset registered by hand, or the left-over
// of an append that failed before anything was written).
func touchFile(path string) {
	if vrt.Symbolic() {
		theVFS.create(path)
		return
	}
	_ = os.WriteFile(path, nil, 0o600)
}
