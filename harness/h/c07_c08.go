package h

import (
	"github.com/cinar/indicator/v2/asset"
	"github.com/cinar/indicator/v2/helper"
	"github.com/cinar/indicator/v2/strategy"
	"github.com/cinar/indicator/v2/strategy/decorator"
	"verif/harness/vrt"
)

// symActions returns n symbolic actions in {Sell, Hold, Buy}.
func symActions(prefix string, n int) []strategy.Action {
	as := make([]strategy.Action, n)
	for i := range as {
		// two booleans per action: every action term is an ite over the three
		// constants, so comparisons fold into propositional structure (no bit-vector unknowns)
		buy, sell := vrt.Bool(prefix+"B", i), vrt.Bool(prefix+"S", i)
		a := strategy.Hold
		if buy {
			a = strategy.Buy
		} else if sell {
			a = strategy.Sell
		}
		as[i] = a
	}
	return as
}

// stubStrategy replays a fixed action word: one action per snapshot read, then
// the remaining input is drained. extra > 0 emits that many surplus Holds,
// short > 0 stops that many actions early (C03: unequal streams).
type stubStrategy struct {
	name  string
	acts  []strategy.Action
	extra int
}

func (s *stubStrategy) Name() string { return s.name }

func (s *stubStrategy) Compute(snapshots <-chan *asset.Snapshot) <-chan strategy.Action {
	out := make(chan strategy.Action)
	go func() {
		defer close(out)
		i := 0
		for range snapshots {
			if i < len(s.acts) {
				out <- s.acts[i]
			}
			i++
		}
		for j := 0; j < s.extra; j++ {
			out <- strategy.Hold
		}
	}()
	return out
}

func (s *stubStrategy) Report(c <-chan *asset.Snapshot) *helper.Report { return nil }

func snapshotsOf(closings []float64) []*asset.Snapshot {
	ss := make([]*asset.Snapshot, len(closings))
	for i := range ss {
		ss[i] = &asset.Snapshot{Open: closings[i], High: closings[i], Low: closings[i], Close: closings[i], Volume: 1}
	}
	return ss
}

func positive(prefix string, n int) []float64 {
	xs := vrt.Floats(prefix, n)
	for _, x := range xs {
		vrt.Assume(x > 0)
	}
	return xs
}

// denorm is the standing recommendation: the last non-Hold action so far.
func denorm(as []strategy.Action) []strategy.Action {
	out := make([]strategy.Action, len(as))
	last := strategy.Hold
	for i, a := range as {
		if a != strategy.Hold {
			last = a
		}
		out[i] = last
	}
	return out
}

func actEq(label string, k int, got, want strategy.Action) {
	vrt.AssertAt(label, k, got == want)
}

// H_C07_Vote: And (kind 0), Or (1), Majority (2) over k stub strategies, n snapshots.
func H_C07_Vote(kind, k, n int) {
	words := make([][]strategy.Action, k)
	subs := make([]strategy.Strategy, k)
	for j := range subs {
		words[j] = symActions(vrt.Name("a", j), n)
		subs[j] = &stubStrategy{name: "s", acts: words[j]}
	}
	var s strategy.Strategy
	switch kind {
	case 0:
		s = strategy.NewAndStrategy("and", subs...)
	case 1:
		s = strategy.NewOrStrategy("or", subs...)
	default:
		s = strategy.NewMajorityStrategyWith("maj", subs)
	}
	got := Collect1(s.Compute(Src(snapshotsOf(positive("c", n)), 0)))
	vrt.Assert("len", len(got) == n)
	st := make([][]strategy.Action, k)
	for j := range st {
		st[j] = denorm(words[j])
	}
	for i := 0; i < n && i < len(got); i++ {
		buy, sell, hold := 0, 0, 0
		for j := 0; j < k; j++ {
			if st[j][i] == strategy.Buy {
				buy++
			} else if st[j][i] == strategy.Sell {
				sell++
			} else {
				hold++
			}
		}
		want := strategy.Hold
		switch kind {
		case 0:
			if buy == k {
				want = strategy.Buy
			} else if sell == k {
				want = strategy.Sell
			}
		case 1:
			if buy > 0 && sell == 0 {
				want = strategy.Buy
			} else if sell > 0 && buy == 0 {
				want = strategy.Sell
			}
		default:
			if buy > sell && buy > hold {
				want = strategy.Buy
			} else if sell > buy && sell > hold {
				want = strategy.Sell
			}
		}
		actEq("vote", i, got[i], want)
	}
	vrt.Reach("end")
}

// H_C07_Split: Buy from the first, Sell from the second unless they conflict.
func H_C07_Split(n int) {
	a, b := symActions("a", n), symActions("b", n)
	s := strategy.NewSplitStrategy(&stubStrategy{name: "a", acts: a}, &stubStrategy{name: "b", acts: b})
	got := Collect1(s.Compute(Src(snapshotsOf(positive("c", n)), 0)))
	vrt.Assert("len", len(got) == n)
	for i := 0; i < n && i < len(got); i++ {
		want := strategy.Hold
		if a[i] == strategy.Buy && b[i] != strategy.Sell {
			want = strategy.Buy
		} else if b[i] == strategy.Sell && a[i] != strategy.Buy {
			want = strategy.Sell
		}
		actEq("split", i, got[i], want)
	}
	vrt.Reach("end")
}

// H_C07_Inverse: swaps Buy and Sell.
func H_C07_Inverse(n int) {
	a := symActions("a", n)
	s := decorator.NewInverseStrategy(&stubStrategy{name: "a", acts: a})
	got := Collect1(s.Compute(Src(snapshotsOf(positive("c", n)), 0)))
	vrt.Assert("len", len(got) == n)
	for i := 0; i < n && i < len(got); i++ {
		actEq("inverse", i, got[i], -a[i])
	}
	vrt.Reach("end")
}

// noLossModel: the documented decorator as a slice function.
func noLossModel(a []strategy.Action, c []float64) []strategy.Action {
	out := make([]strategy.Action, len(a))
	holding := false
	bought := 0.0
	for i := range a {
		out[i] = strategy.Hold
		if a[i] == strategy.Buy && !holding {
			holding, bought = true, c[i]
			out[i] = strategy.Buy
		} else if a[i] == strategy.Sell && holding && c[i] > bought {
			holding = false
			out[i] = strategy.Sell
		}
	}
	return out
}

// stopLossModel: Buy when flat; Sell when holding and (inner Sell or close <= stop).
func stopLossModel(a []strategy.Action, c []float64, p float64) []strategy.Action {
	out := make([]strategy.Action, len(a))
	holding := false
	stop := 0.0
	for i := range a {
		out[i] = strategy.Hold
		if a[i] == strategy.Buy && !holding {
			holding, stop = true, c[i]*(1-p)
			out[i] = strategy.Buy
		} else if holding && (a[i] == strategy.Sell || c[i] <= stop) {
			holding = false
			out[i] = strategy.Sell
		}
	}
	return out
}

// noLossSafety: every emitted Sell is at a close above the close of the preceding emitted Buy.
func noLossSafety(label string, out []strategy.Action, c []float64) {
	for i := range out {
		for j := 0; j < i; j++ {
			// j is the preceding Buy of i if out[j]==Buy and nothing but Hold in between
			quiet := true
			for m := j + 1; m < i; m++ {
				if out[m] != strategy.Hold {
					quiet = false
				}
			}
			if quiet {
				vrt.AssertAt(label, i, !(out[i] == strategy.Sell && out[j] == strategy.Buy) || c[i] > c[j])
			}
		}
	}
}

// H_C07_NoLoss: functional model and the safety property.
func H_C07_NoLoss(n int) {
	a := symActions("a", n)
	c := positive("c", n)
	s := decorator.NewNoLossStrategy(&stubStrategy{name: "a", acts: a})
	got := Collect1(s.Compute(Src(snapshotsOf(c), 0)))
	vrt.Assert("len", len(got) == n)
	want := noLossModel(a, c)
	for i := 0; i < n && i < len(got); i++ {
		actEq("noloss", i, got[i], want[i])
	}
	if len(got) == n {
		noLossSafety("never_sell_at_loss", got, c)
	}
	vrt.Reach("end")
}

// H_C07_StopLoss: functional model plus: after a Buy at j, the first i > j with
// close_i <= close_j*(1-p) carries a Sell unless one was emitted in between.
func H_C07_StopLoss(n int) {
	a := symActions("a", n)
	c := positive("c", n)
	p := vrt.Float64("p")
	vrt.Assume(p >= 0 && p < 1)
	s := decorator.NewStopLossStrategy(&stubStrategy{name: "a", acts: a}, p)
	got := Collect1(s.Compute(Src(snapshotsOf(c), 0)))
	vrt.Assert("len", len(got) == n)
	want := stopLossModel(a, c, p)
	for i := 0; i < n && i < len(got); i++ {
		actEq("stoploss", i, got[i], want[i])
	}
	if len(got) == n {
		for j := 0; j < n; j++ {
			for i := j + 1; i < n; i++ {
				quiet := true
				for m := j + 1; m < i; m++ {
					if got[m] != strategy.Hold || c[m] <= c[j]*(1-p) {
						quiet = false
					}
				}
				if quiet {
					vrt.AssertAt(vrt.Name("stop_fires", j), i, !(got[j] == strategy.Buy && c[i] <= c[j]*(1-p)) || got[i] == strategy.Sell)
				}
			}
		}
	}
	vrt.Reach("end")
}

// H_C07_Nested: NoLoss(StopLoss(x)), Inverse(NoLoss(x)), And(Or(x,y),z) against composed models.
func H_C07_Nested(which, n int) {
	c := positive("c", n)
	snaps := snapshotsOf(c)
	switch which {
	case 0:
		a := symActions("a", n)
		p := vrt.Float64("p")
		vrt.Assume(p >= 0 && p < 1)
		s := decorator.NewNoLossStrategy(decorator.NewStopLossStrategy(&stubStrategy{name: "a", acts: a}, p))
		got := Collect1(s.Compute(Src(snaps, 0)))
		want := noLossModel(stopLossModel(a, c, p), c)
		vrt.Assert("len", len(got) == n)
		for i := 0; i < n && i < len(got); i++ {
			actEq("noloss_stoploss", i, got[i], want[i])
		}
		if len(got) == n {
			noLossSafety("never_sell_at_loss", got, c)
		}
	case 1:
		a := symActions("a", n)
		s := decorator.NewInverseStrategy(decorator.NewNoLossStrategy(&stubStrategy{name: "a", acts: a}))
		got := Collect1(s.Compute(Src(snaps, 0)))
		want := noLossModel(a, c)
		vrt.Assert("len", len(got) == n)
		for i := 0; i < n && i < len(got); i++ {
			actEq("inverse_noloss", i, got[i], -want[i])
		}
	default:
		x, y, z := symActions("x", n), symActions("y", n), symActions("z", n)
		or := strategy.NewOrStrategy("or", &stubStrategy{name: "x", acts: x}, &stubStrategy{name: "y", acts: y})
		s := strategy.NewAndStrategy("and", or, &stubStrategy{name: "z", acts: z})
		got := Collect1(s.Compute(Src(snaps, 0)))
		vrt.Assert("len", len(got) == n)
		dx, dy, dz := denorm(x), denorm(y), denorm(z)
		orOut := make([]strategy.Action, n)
		for i := 0; i < n; i++ {
			b, sl := 0, 0
			if dx[i] == strategy.Buy {
				b++
			} else if dx[i] == strategy.Sell {
				sl++
			}
			if dy[i] == strategy.Buy {
				b++
			} else if dy[i] == strategy.Sell {
				sl++
			}
			orOut[i] = strategy.Hold
			if b > 0 && sl == 0 {
				orOut[i] = strategy.Buy
			} else if sl > 0 && b == 0 {
				orOut[i] = strategy.Sell
			}
		}
		dor := denorm(orOut)
		for i := 0; i < n && i < len(got); i++ {
			want := strategy.Hold
			if dor[i] == strategy.Buy && dz[i] == strategy.Buy {
				want = strategy.Buy
			} else if dor[i] == strategy.Sell && dz[i] == strategy.Sell {
				want = strategy.Sell
			}
			actEq("and_or", i, got[i], want)
		}
	}
	vrt.Reach("end")
}

// ---- C08 ----

// portfolio is the all-in/all-out reference: one unit of cash, everything in on a
// Buy while in cash, everything out on a Sell while invested.
func portfolio(v []float64, a []strategy.Action) []float64 {
	n := imin(len(v), len(a))
	out := make([]float64, n)
	cash, units := 1.0, 0.0
	invested := false
	for i := 0; i < n; i++ {
		if a[i] == strategy.Buy && !invested {
			units, cash, invested = cash/v[i], 0, true
		} else if a[i] == strategy.Sell && invested {
			cash, units, invested = units*v[i], 0, false
		}
		out[i] = cash + units*v[i] - 1
	}
	return out
}

func normModel(a []strategy.Action) []strategy.Action {
	out := make([]strategy.Action, len(a))
	last := strategy.Sell
	for i, x := range a {
		out[i] = strategy.Hold
		if x != strategy.Hold && x != last {
			last = x
			out[i] = x
		}
	}
	return out
}

// H_C08_Outcome: nv values, na actions (unequal lengths allowed).
func H_C08_Outcome(nv, na int) {
	v := positive("v", nv)
	a := symActions("a", na)
	got := Collect1(strategy.Outcome(Src(v, 0), Src(a, 0)))
	n := imin(nv, na)
	vrt.Assert("len", len(got) == n)
	want := portfolio(v, a)
	seenBuy := false
	for i := 0; i < n && i < len(got); i++ {
		vrt.AssertEqAt("portfolio", i, got[i], want[i])
		vrt.AssertAt("ge_minus_one", i, got[i] >= -1)
		if a[i] == strategy.Buy {
			seenBuy = true
		}
		vrt.AssertAt("zero_until_first_buy", i, seenBuy || got[i] == 0)
	}
	// unchanged when redundant repeated actions are removed
	norm := Collect1(strategy.NormalizeActions(Src(a, 0)))
	vrt.Assert("norm_len", len(norm) == na)
	if len(norm) == na {
		got2 := Collect1(strategy.Outcome(Src(v, 0), Src(norm, 0)))
		for i := 0; i < n && i < len(got2) && i < len(got); i++ {
			vrt.AssertEqAt("normalize_invariant", i, got2[i], got[i])
		}
	}
	vrt.Reach("end")
}

// H_C08_OutcomeInt: Outcome is generic over helper.Number; with integer values
// (prices in cents, say) the portfolio arithmetic must still be done in floating point.
func H_C08_OutcomeInt(n int) {
	vi := make([]int, n)
	vf := make([]float64, n)
	for i := range vi {
		vi[i] = vrt.Int("v", i)
		vrt.Assume(vi[i] >= 1)
		vrt.Assume(vi[i] <= 1000000)
		vf[i] = float64(vi[i])
	}
	a := symActions("a", n)
	got := Collect1(strategy.Outcome(Src(vi, 0), Src(a, 0)))
	vrt.Assert("len", len(got) == n)
	want := portfolio(vf, a)
	for i := 0; i < n && i < len(got); i++ {
		vrt.AssertEqAt("portfolio_int", i, got[i], want[i])
	}
	vrt.Reach("end")
}

// H_C08_BuyAndHold: the bundled buy-and-hold strategy yields v_i/v_0 - 1.
func H_C08_BuyAndHold(n int) {
	v := positive("v", n)
	s := strategy.NewBuyAndHoldStrategy()
	acts, outs := strategy.ComputeWithOutcome(s, Src(snapshotsOf(v), 0))
	done := make(chan struct{})
	var as []strategy.Action
	go func() { as = Collect1(acts); close(done) }()
	got := Collect1(outs)
	<-done
	vrt.Assert("len", len(got) == n && len(as) == n)
	for i := 0; i < n && i < len(got); i++ {
		vrt.AssertEqAt("buy_and_hold", i, got[i], v[i]/v[0]-1)
	}
	vrt.Reach("end")
}

// H_C08_Normalize: alternation, round trip, transaction counting.
func H_C08_Normalize(n int) {
	a := symActions("a", n)
	norm := Collect1(strategy.NormalizeActions(Src(a, 0)))
	vrt.Assert("len", len(norm) == n)
	want := normModel(a)
	last := strategy.Sell
	for i := 0; i < n && i < len(norm); i++ {
		actEq("normalize", i, norm[i], want[i])
		// strictly alternating, starting with Buy
		vrt.AssertAt("alternates", i, norm[i] == strategy.Hold || norm[i] == -last)
		if norm[i] != strategy.Hold {
			last = norm[i]
		}
	}
	if len(norm) == n {
		// denormalise then normalise is the identity on normalised streams
		back := Collect1(strategy.NormalizeActions(strategy.DenormalizeActions(Src(norm, 0))))
		vrt.Assert("roundtrip_len", len(back) == n)
		for i := 0; i < n && i < len(back); i++ {
			actEq("roundtrip", i, back[i], norm[i])
		}
		den := Collect1(strategy.DenormalizeActions(Src(a, 0)))
		dm := denorm(a)
		for i := 0; i < n && i < len(den); i++ {
			actEq("denormalize", i, den[i], dm[i])
		}
	}
	cnt := Collect1(strategy.CountTransactions(Src(a, 0)))
	vrt.Assert("count_len", len(cnt) == n)
	k := 0
	for i := 0; i < n && i < len(cnt); i++ {
		if a[i] != strategy.Hold {
			k++
		}
		vrt.AssertAt("count", i, cnt[i] == k)
	}
	vrt.Reach("end")
}

// H_C09_Deco: compound / decorator instances hold configuration only: a second
// Compute on the same instance (different action words, closings and length)
// equals a Compute on a fresh instance, and Compute never writes into the instance.
// kind: 0 And, 1 Or, 2 Majority, 3 Split, 4 Inverse, 5 NoLoss, 6 StopLoss.
func H_C09_Deco(kind, n1, n2 int) {
	mk := func(a, b []strategy.Action, p float64) strategy.Strategy {
		sa, sb := &stubStrategy{name: "a", acts: a}, &stubStrategy{name: "b", acts: b}
		switch kind {
		case 0:
			return strategy.NewAndStrategy("and", sa, sb)
		case 1:
			return strategy.NewOrStrategy("or", sa, sb)
		case 2:
			return strategy.NewMajorityStrategyWith("maj", []strategy.Strategy{sa, sb})
		case 3:
			return strategy.NewSplitStrategy(sa, sb)
		case 4:
			return decorator.NewInverseStrategy(sa)
		case 5:
			return decorator.NewNoLossStrategy(sa)
		default:
			return decorator.NewStopLossStrategy(sa, p)
		}
	}
	p := vrt.Float64("p")
	vrt.Assume(p >= 0 && p < 1)
	n := imax(n1, n2)
	// the stubs replay their word per call: first call uses the first n1 entries of
	// words 1, the second call the words 2 (the stub's word is swapped in between)
	a1, b1 := symActions("a1", n), symActions("b1", n)
	a2, b2 := symActions("a2", n2), symActions("b2", n2)
	c1, c2 := positive("c1", n1), positive("c2", n2)
	s := mk(a1, b1, p)
	vrt.Freeze(s)
	_ = Collect1(s.Compute(Src(snapshotsOf(c1), 0)))
	vrt.Unfreeze()
	// swap the words of the wrapped stubs (harness-side state, not the instance's)
	swapWords(s, a2, b2)
	vrt.Freeze(s)
	second := Collect1(s.Compute(Src(snapshotsOf(c2), 0)))
	vrt.Unfreeze()
	fresh := Collect1(mk(a2, b2, p).Compute(Src(snapshotsOf(c2), 0)))
	vrt.Assert("len", len(second) == len(fresh))
	for i := range fresh {
		if i < len(second) {
			vrt.AssertAt("reuse", i, second[i] == fresh[i])
		}
	}
	vrt.Reach("end")
}

func swapWords(s strategy.Strategy, a, b []strategy.Action) {
	set := func(x strategy.Strategy, w []strategy.Action) {
		if st, ok := x.(*stubStrategy); ok {
			st.acts = w
		}
	}
	switch t := s.(type) {
	case *strategy.AndStrategy:
		set(t.Strategies[0], a)
		set(t.Strategies[1], b)
	case *strategy.OrStrategy:
		set(t.Strategies[0], a)
		set(t.Strategies[1], b)
	case *strategy.MajorityStrategy:
		set(t.Strategies[0], a)
		set(t.Strategies[1], b)
	case *strategy.SplitStrategy:
		set(t.BuyStrategy, a)
		set(t.SellStrategy, b)
	case *decorator.InverseStrategy:
		set(t.InnerStrategy, a)
	case *decorator.NoLossStrategy:
		set(t.InnertStrategy, a)
	case *decorator.StopLossStrategy:
		set(t.InnertStrategy, a)
	}
}

// H_C18_Deco: decorators do not depend on the currency unit: scaling every
// closing by 2 (which 0) or 1/4 (which 1) leaves the decorated actions unchanged.
// kind 5 NoLoss, 6 StopLoss, 4 Inverse.
func H_C18_Deco(kind, n, which int) {
	a := symActions("a", n)
	c := positive("c", n)
	f := 2.0
	if which == 1 {
		f = 0.25
	}
	p := vrt.Float64("p")
	vrt.Assume(p >= 0 && p < 1)
	mk := func() strategy.Strategy {
		st := &stubStrategy{name: "a", acts: a}
		switch kind {
		case 4:
			return decorator.NewInverseStrategy(st)
		case 5:
			return decorator.NewNoLossStrategy(st)
		default:
			return decorator.NewStopLossStrategy(st, p)
		}
	}
	sc := make([]float64, n)
	for i := range c {
		sc[i] = c[i] * f
	}
	x := Collect1(mk().Compute(Src(snapshotsOf(c), 0)))
	y := Collect1(mk().Compute(Src(snapshotsOf(sc), 0)))
	vrt.Assert("len", len(x) == len(y))
	for i := range x {
		if i < len(y) {
			vrt.AssertAt("same_action", i, x[i] == y[i])
		}
	}
	vrt.Reach("end")
}

// H_C09_DecoConc: two Compute calls on one decorator instance are alive at the
// same time (as with Backtest workers sharing strategy instances): the engine's
// certificate over memory cells must find no unordered conflicting access, and
// each result must equal that of a fresh instance. kind: 4 Inverse, 5 NoLoss, 6 StopLoss.
// The wrapped stub is stateless: it derives its actions from the closings it sees
// (Buy when the close is above `hi`, Sell when below `lo`), so that the two
// concurrent calls legitimately see different action words.
type thresholdStrategy struct {
	lo, hi float64
}

func (t *thresholdStrategy) Name() string { return "threshold" }
func (t *thresholdStrategy) Compute(snapshots <-chan *asset.Snapshot) <-chan strategy.Action {
	return helper.Map(snapshots, func(s *asset.Snapshot) strategy.Action {
		if s.Close > t.hi {
			return strategy.Buy
		}
		if s.Close < t.lo {
			return strategy.Sell
		}
		return strategy.Hold
	})
}
func (t *thresholdStrategy) Report(c <-chan *asset.Snapshot) *helper.Report { return nil }

func H_C09_DecoConc(kind, n int) {
	lo, hi := vrt.Float64("lo"), vrt.Float64("hi")
	vrt.Assume(lo > 0 && lo < hi)
	p := vrt.Float64("p")
	vrt.Assume(p >= 0 && p < 1)
	mk := func() strategy.Strategy {
		in := &thresholdStrategy{lo: lo, hi: hi}
		switch kind {
		case 4:
			return decorator.NewInverseStrategy(in)
		case 5:
			return decorator.NewNoLossStrategy(in)
		default:
			return decorator.NewStopLossStrategy(in, p)
		}
	}
	a, b := positive("ca", n), positive("cb", n)
	s := mk()
	var ra, rb []strategy.Action
	da, db := make(chan struct{}), make(chan struct{})
	go func() { ra = Collect1(s.Compute(Src(snapshotsOf(a), 0))); close(da) }()
	go func() { rb = Collect1(s.Compute(Src(snapshotsOf(b), 0))); close(db) }()
	<-da
	<-db
	fa := Collect1(mk().Compute(Src(snapshotsOf(a), 0)))
	fb := Collect1(mk().Compute(Src(snapshotsOf(b), 0)))
	vrt.Assert("len", len(ra) == len(fa) && len(rb) == len(fb))
	for i := range fa {
		if i < len(ra) {
			vrt.AssertAt("conc_a", i, ra[i] == fa[i])
		}
	}
	for i := range fb {
		if i < len(rb) {
			vrt.AssertAt("conc_b", i, rb[i] == fb[i])
		}
	}
	vrt.Reach("end")
}
