package h

import (
	"github.com/cinar/indicator/v2/asset"
	"github.com/cinar/indicator/v2/strategy"
	strend "github.com/cinar/indicator/v2/strategy/trend"
	"github.com/cinar/indicator/v2/trend"
)

// Strategy table entries, group trend-A: Alligator, Apo, Aroon, Bop, Cci, Dema,
// Envelope, GoldenCross, Kama. Rule/Warm/Cols restate the DOC COMMENT (and, where
// the doc only says "crossing", the reading of DESIGN Appendix B); the indicator
// is always a fresh REAL instance with the same periods.

// saDigits/saItoa: concrete decimal rendering of a small non-negative int (no fmt).
var saDigits = []string{"0", "1", "2", "3", "4", "5", "6", "7", "8", "9"}

func saItoa(v int) string {
	if v < 10 {
		return saDigits[v]
	}
	return saItoa(v/10) + saDigits[v%10]
}

func saMax3(a, b, c int) int { return imax(a, imax(b, c)) }

// saSmma runs a fresh real SMMA(period) on xs and aligns it with the n inputs.
func saSmma(period int, xs []float64) []float64 {
	ind := trend.NewSmmaWithPeriod[float64](period)
	return pad(Collect1(ind.Compute(Src(xs, 0))), ind.IdlePeriod(), len(xs))
}

// saEma runs a fresh real EMA(period) on xs and aligns it with the n inputs.
func saEma(period int, xs []float64) []float64 {
	ind := trend.NewEmaWithPeriod[float64](period)
	return pad(Collect1(ind.Compute(Src(xs, 0))), ind.IdlePeriod(), len(xs))
}

// saApo: fresh real APO(fast, slow); its first value belongs to position slow-1
// (the slow EMA's idle period; APO declares no IdlePeriod of its own).
func saApo(a *trend.Apo[float64], xs []float64) []float64 {
	ind := trend.NewApo[float64]()
	ind.FastPeriod, ind.SlowPeriod = a.FastPeriod, a.SlowPeriod
	return pad(Collect1(ind.Compute(Src(xs, 0))), a.SlowPeriod-1, len(xs))
}

// saDema: fresh real DEMA with the same EMA periods, aligned by its IdlePeriod.
func saDema(d *trend.Dema[float64], xs []float64) []float64 {
	ind := trend.NewDema[float64]()
	ind.Ema1.Period, ind.Ema2.Period = d.Ema1.Period, d.Ema2.Period
	return pad(Collect1(ind.Compute(Src(xs, 0))), ind.IdlePeriod(), len(xs))
}

// saEnvelope: fresh real Envelope over SMA(period) with the same percentage.
func saEnvelope(e *trend.Envelope[float64], xs []float64) (upper, middle, lower []float64) {
	p := e.Ma.(*trend.Sma[float64]).Period
	ind := trend.NewEnvelope[float64](trend.NewSmaWithPeriod[float64](p), e.Percentage)
	u, m, l := ind.Compute(Src(xs, 0))
	outs := Collect(u, m, l)
	w, n := ind.IdlePeriod(), len(xs)
	return pad(outs[0], w, n), pad(outs[1], w, n), pad(outs[2], w, n)
}

func saAroon(period int, highs, lows []float64) (up, down []float64) {
	ind := trend.NewAroon[float64]()
	ind.Period = period
	u, d := ind.Compute(Src(highs, 0), Src(lows, 0))
	outs := Collect(u, d)
	return pad(outs[0], period-1, len(highs)), pad(outs[1], period-1, len(highs))
}

func saCci(period int, highs, lows, closes []float64) []float64 {
	ind := trend.NewCciWithPeriod[float64](period)
	return pad(Collect1(ind.Compute(Src(highs, 0), Src(lows, 0), Src(closes, 0))), ind.IdlePeriod(), len(highs))
}

func saKama(k *trend.Kama[float64], xs []float64) []float64 {
	ind := trend.NewKamaWith[float64](k.ErPeriod, k.FastScPeriod, k.SlowScPeriod)
	return pad(Collect1(ind.Compute(Src(xs, 0))), ind.IdlePeriod(), len(xs))
}

func saBop(snaps []*asset.Snapshot) []float64 {
	ind := trend.NewBop[float64]()
	return pad(Collect1(ind.Compute(Src(fOpen(snaps), 0), Src(fHigh(snaps), 0), Src(fLow(snaps), 0), Src(fClose(snaps), 0))), 0, len(snaps))
}

func saAlligatorWarm(a *strend.AlligatorStrategy) int {
	return saMax3(a.Jaw.IdlePeriod(), a.Teeth.IdlePeriod(), a.Lip.IdlePeriod())
}

func saDemaWarm(d *strend.DemaStrategy) int {
	return imax(d.Dema1.IdlePeriod(), d.Dema2.IdlePeriod())
}

func init() {
	// Alligator strategy. cfg = jaw, teeth, lip periods.
	// Doc: "uses three SMMAs" of the closing prices (Jaw slowest, Teeth medium, Lip
	// fastest); decision per Appendix B: Buy when the lip is above both teeth and
	// jaw, Sell when below both. Warm-up: the largest SMMA idle period = max(P)-1.
	regS(&Strat{
		Name: "Alligator",
		Make: func(cfg []int, dflt bool) strategy.Strategy {
			if dflt {
				return strend.NewAlligatorStrategy()
			}
			return strend.NewAlligatorStrategyWith(cfg[0], cfg[1], cfg[2])
		},
		Warm: func(s strategy.Strategy) int { return saAlligatorWarm(s.(*strend.AlligatorStrategy)) },
		Rule: func(s strategy.Strategy, snaps []*asset.Snapshot) ([]strategy.Action, []bool) {
			a := s.(*strend.AlligatorStrategy)
			c := fClose(snaps)
			jaw, teeth, lip := saSmma(a.Jaw.Period, c), saSmma(a.Teeth.Period, c), saSmma(a.Lip.Period, c)
			return decide(len(snaps), saAlligatorWarm(a), func(i int) (strategy.Action, bool) {
				exempt := lip[i] == teeth[i] || lip[i] == jaw[i]
				if lip[i] > teeth[i] && lip[i] > jaw[i] {
					return strategy.Buy, exempt
				}
				if lip[i] < teeth[i] && lip[i] < jaw[i] {
					return strategy.Sell, exempt
				}
				return strategy.Hold, exempt
			})
		},
		Cols: func(s strategy.Strategy, snaps []*asset.Snapshot) map[string][]float64 {
			a := s.(*strend.AlligatorStrategy)
			c := fClose(snaps)
			return map[string][]float64{
				"Jaw": saSmma(a.Jaw.Period, c), "Teeth": saSmma(a.Teeth.Period, c), "Lip": saSmma(a.Lip.Period, c),
			}
		},
		// FINDING (confirmed): Compute synchronises the three SMMAs to
		// CommonPeriod = max(P) but an SMMA(P) is idle for only P-1 values, so the
		// synchronised streams carry n-(max-1) values; shifting them by max (not max-1)
		// yields n+1 actions, each decision one position late (position max-1 gets the
		// filler Hold, position i > max-1 gets the decision of i-1).
		KFLen: func(cfg []int, n int) string {
			m := saMax3(cfg[0], cfg[1], cfg[2])
			if m == 0 { // default configuration (13, 8, 5)
				m = strend.DefaultAlligatorStrategyJawPeriod
			}
			if n >= m-1 {
				return "KF-C05-Alligator-shift-by-max"
			}
			return ""
		},
		KFRule: func(cfg []int, n, i int) string { return "KF-C06-Alligator-shift-by-max" },
		// Report: dates/Close/Outcome skip max rows (so the first decidable row max-1 is
		// missing), while Jaw/Teeth/Lip (n-max+1 values) and the annotations (n+1-max)
		// carry one value more than there are date rows.
		KFCol: func(cfg []int, n int, col string) string {
			if col == "Jaw" || col == "Teeth" || col == "Lip" || col == "" || col == "rows" {
				// "rows": dates skip max instead of max-1, so one snapshot beyond the warm-up gives no row
				return "KF-C14-Alligator-shift-by-max"
			}
			return ""
		},
	})

	// APO strategy. cfg = fast, slow EMA periods (cfg[2] unused); smoothings stay default.
	// Doc: closing prices -> APO; "crossing above zero" Buy, "crossing below zero"
	// Sell. Appendix B reading: (previous, current) APO values; crosses up through 0 /
	// down through 0. Positions where previous or current APO is exactly 0 are exempt.
	// Warm-up (Appendix B, code comment "APO starts only after the slow period"): slow.
	regS(&Strat{
		Name: "Apo",
		Make: func(cfg []int, dflt bool) strategy.Strategy {
			s := strend.NewApoStrategy()
			if !dflt {
				s.Apo.FastPeriod, s.Apo.SlowPeriod = cfg[0], cfg[1]
			}
			return s
		},
		Warm: func(s strategy.Strategy) int { return s.(*strend.ApoStrategy).Apo.SlowPeriod },
		Rule: func(s strategy.Strategy, snaps []*asset.Snapshot) ([]strategy.Action, []bool) {
			a := s.(*strend.ApoStrategy).Apo
			apo := saApo(a, fClose(snaps))
			return decide(len(snaps), a.SlowPeriod, func(i int) (strategy.Action, bool) {
				prev, cur := apo[i-1], apo[i]
				exempt := prev == 0 || cur == 0
				if prev < 0 && cur > 0 {
					return strategy.Buy, exempt
				}
				if prev > 0 && cur < 0 {
					return strategy.Sell, exempt
				}
				return strategy.Hold, exempt
			})
		},
		Cols: func(s strategy.Strategy, snaps []*asset.Snapshot) map[string][]float64 {
			return map[string][]float64{"APO": saApo(s.(*strend.ApoStrategy).Apo, fClose(snaps))}
		},
		// FINDING (confirmed): Report shifts the APO stream (n-slow+1 values, the first
		// belonging to position slow-1) by slow instead of slow-1: the "APO" column
		// carries n+1 values for n date rows, every value one row late.
		KFCol: func(cfg []int, n int, col string) string {
			if col == "APO" {
				return "KF-C14-Apo-column-shifted-by-slow"
			}
			return ""
		},
	})

	// Aroon strategy. cfg = period (cfg[1], cfg[2] unused).
	// Doc: highs, lows -> Aroon Up / Aroon Down; Buy when Up exceeds Down, Sell when
	// Down surpasses Up. Warm-up P-1 (moving max/min window).
	regS(&Strat{
		Name: "Aroon",
		Make: func(cfg []int, dflt bool) strategy.Strategy {
			s := strend.NewAroonStrategy()
			if !dflt {
				s.Aroon.Period = cfg[0]
			}
			return s
		},
		Warm: func(s strategy.Strategy) int { return s.(*strend.AroonStrategy).Aroon.Period - 1 },
		Rule: func(s strategy.Strategy, snaps []*asset.Snapshot) ([]strategy.Action, []bool) {
			p := s.(*strend.AroonStrategy).Aroon.Period
			up, down := saAroon(p, fHigh(snaps), fLow(snaps))
			return decide(len(snaps), p-1, func(i int) (strategy.Action, bool) {
				exempt := up[i] == down[i]
				if up[i] > down[i] {
					return strategy.Buy, exempt
				}
				if down[i] > up[i] {
					return strategy.Sell, exempt
				}
				return strategy.Hold, exempt
			})
		},
		Cols: func(s strategy.Strategy, snaps []*asset.Snapshot) map[string][]float64 {
			up, down := saAroon(s.(*strend.AroonStrategy).Aroon.Period, fHigh(snaps), fLow(snaps))
			return map[string][]float64{"Aroon Up": up, "Aroon Down": down}
		},
	})

	// BoP strategy. No periods.
	// Doc: open, high, low, close -> BOP = (close-open)/(high-low); positive Buy,
	// negative Sell, zero equilibrium (Hold). No warm-up.
	regS(&Strat{
		Name: "Bop",
		Make: func(cfg []int, dflt bool) strategy.Strategy { return strend.NewBopStrategy() },
		Warm: func(s strategy.Strategy) int { return 0 },
		Rule: func(s strategy.Strategy, snaps []*asset.Snapshot) ([]strategy.Action, []bool) {
			bop := saBop(snaps)
			return decide(len(snaps), 0, func(i int) (strategy.Action, bool) {
				exempt := bop[i] == 0
				if bop[i] > 0 {
					return strategy.Buy, exempt
				}
				if bop[i] < 0 {
					return strategy.Sell, exempt
				}
				return strategy.Hold, exempt
			})
		},
		Cols: func(s strategy.Strategy, snaps []*asset.Snapshot) map[string][]float64 {
			return map[string][]float64{"BoP": saBop(snaps)}
		},
	})

	// CCI strategy. cfg = period.
	// Doc: CCI (of highs, lows, closings: typical price) "crossing above the 100+"
	// Buy, "crossing below the 100-" Sell; Appendix B reading: cci >= 100 / cci <= -100.
	// Warm-up: Cci.IdlePeriod() = 2P-2.
	regS(&Strat{
		Name: "Cci",
		Make: func(cfg []int, dflt bool) strategy.Strategy {
			s := strend.NewCciStrategy()
			if !dflt {
				s.Cci.Period = cfg[0]
			}
			return s
		},
		Warm: func(s strategy.Strategy) int { return s.(*strend.CciStrategy).Cci.IdlePeriod() },
		Rule: func(s strategy.Strategy, snaps []*asset.Snapshot) ([]strategy.Action, []bool) {
			c := s.(*strend.CciStrategy).Cci
			cci := saCci(c.Period, fHigh(snaps), fLow(snaps), fClose(snaps))
			return decide(len(snaps), c.IdlePeriod(), func(i int) (strategy.Action, bool) {
				if cci[i] >= 100 {
					return strategy.Buy, false
				}
				if cci[i] <= -100 {
					return strategy.Sell, false
				}
				return strategy.Hold, false
			})
		},
		Cols: func(s strategy.Strategy, snaps []*asset.Snapshot) map[string][]float64 {
			c := s.(*strend.CciStrategy).Cci
			return map[string][]float64{"CCI": saCci(c.Period, fHigh(snaps), fLow(snaps), fClose(snaps))}
		},
		// FINDING (confirmed): Compute and Report build all three CCI inputs with
		// asset.SnapshotsAsHighs (variables named lows / closings), so the typical price
		// is the high alone; every decision and every "CCI" value differs from the
		// documented one as soon as high, low, close are not all equal. The report's
		// "Close" column is fed from the same highs stream.
		KFRule: func(cfg []int, n, i int) string { return "KF-C06-Cci-highs-for-low-and-close" },
		KFCol: func(cfg []int, n int, col string) string {
			if col == "CCI" || col == "Close" {
				return "KF-C14-Cci-highs-for-low-and-close"
			}
			return ""
		},
	})

	// DEMA strategy. cfg = period of the first DEMA, period of the second DEMA (each
	// DEMA uses the same period for both of its EMAs, as the default constructor does).
	// Doc: closing prices; bullish (Buy) when DEMA1 is above DEMA2, bearish (Sell)
	// when DEMA2 is above DEMA1. Warm-up: idle period of the slower DEMA.
	regS(&Strat{
		Name: "Dema",
		Make: func(cfg []int, dflt bool) strategy.Strategy {
			s := strend.NewDemaStrategy()
			if !dflt {
				s.Dema1.Ema1.Period, s.Dema1.Ema2.Period = cfg[0], cfg[0]
				s.Dema2.Ema1.Period, s.Dema2.Ema2.Period = cfg[1], cfg[1]
			}
			return s
		},
		Warm: func(s strategy.Strategy) int { return saDemaWarm(s.(*strend.DemaStrategy)) },
		Rule: func(s strategy.Strategy, snaps []*asset.Snapshot) ([]strategy.Action, []bool) {
			d := s.(*strend.DemaStrategy)
			d1, d2 := saDema(d.Dema1, fClose(snaps)), saDema(d.Dema2, fClose(snaps))
			return decide(len(snaps), saDemaWarm(d), func(i int) (strategy.Action, bool) {
				exempt := d1[i] == d2[i]
				if d1[i] > d2[i] {
					return strategy.Buy, exempt
				}
				if d2[i] > d1[i] {
					return strategy.Sell, exempt
				}
				return strategy.Hold, exempt
			})
		},
		Cols: func(s strategy.Strategy, snaps []*asset.Snapshot) map[string][]float64 {
			d := s.(*strend.DemaStrategy)
			if d.Dema1.Ema1.Period == d.Dema2.Ema1.Period {
				return nil // both columns carry the same name
			}
			d1, d2 := saDema(d.Dema1, fClose(snaps)), saDema(d.Dema2, fClose(snaps))
			p1, p2 := saItoa(d.Dema1.Ema1.Period), saItoa(d.Dema2.Ema1.Period)
			return map[string][]float64{
				"Dema " + p1 + "-day": d1,
				"Dema " + p2 + "-day": d2,
				// the executor's fmt.Sprintf model renders the name unformatted
				"Dema %d-day int(" + p1 + ")": d1,
				"Dema %d-day int(" + p2 + ")": d2,
			}
		},
		// FINDING (new, configuration order): Compute pads both DEMA streams with zeros
		// and discards/holds only Dema2.IdlePeriod() positions. When the first DEMA is
		// the slower one, positions Dema2.idle .. Dema1.idle-1 compare the zero filler
		// of DEMA1 with real DEMA2 values (Sell for positive prices) instead of Hold.
		KFHoldOnly: true,
		KFLen: func(cfg []int, n int) string {
			if cfg[0] > cfg[1] && n >= 1 {
				return "KF-C05-Dema-first-dema-slower"
			}
			return ""
		},
	})

	// Envelope strategy. cfg = period of the SMA the envelope is built on; the
	// percentage stays at its default (20).
	// Doc: closing above the upper band -> Sell, closing below the lower band -> Buy.
	// Warm-up: Envelope.IdlePeriod() = idle period of the moving average.
	regS(&Strat{
		Name: "Envelope",
		Make: func(cfg []int, dflt bool) strategy.Strategy {
			s := strend.NewEnvelopeStrategy()
			if !dflt {
				s.Envelope.Ma.(*trend.Sma[float64]).Period = cfg[0]
			}
			return s
		},
		Warm: func(s strategy.Strategy) int { return s.(*strend.EnvelopeStrategy).Envelope.IdlePeriod() },
		Rule: func(s strategy.Strategy, snaps []*asset.Snapshot) ([]strategy.Action, []bool) {
			e := s.(*strend.EnvelopeStrategy).Envelope
			c := fClose(snaps)
			upper, _, lower := saEnvelope(e, c)
			return decide(len(snaps), e.IdlePeriod(), func(i int) (strategy.Action, bool) {
				exempt := c[i] == lower[i] || c[i] == upper[i]
				if c[i] < lower[i] {
					return strategy.Buy, exempt
				}
				if c[i] > upper[i] {
					return strategy.Sell, exempt
				}
				return strategy.Hold, exempt
			})
		},
		Cols: func(s strategy.Strategy, snaps []*asset.Snapshot) map[string][]float64 {
			u, m, l := saEnvelope(s.(*strend.EnvelopeStrategy).Envelope, fClose(snaps))
			return map[string][]float64{"Upper": u, "Middle": m, "Lower": l}
		},
	})

	// Golden Cross strategy. cfg = fast, slow EMA periods.
	// Doc: closing prices -> two EMAs; Buy when the fastest EMA crosses above the
	// slowest, Sell when it crosses below, otherwise Hold. Appendix B reading of
	// "crosses": fast above slow / fast below slow. Warm-up: idle period of the slow EMA.
	regS(&Strat{
		Name: "GoldenCross",
		Make: func(cfg []int, dflt bool) strategy.Strategy {
			if dflt {
				return strend.NewGoldenCrossStrategy()
			}
			return strend.NewGoldenCrossStrategyWith(cfg[0], cfg[1])
		},
		Warm: func(s strategy.Strategy) int { return s.(*strend.GoldenCrossStrategy).SlowEma.IdlePeriod() },
		Rule: func(s strategy.Strategy, snaps []*asset.Snapshot) ([]strategy.Action, []bool) {
			g := s.(*strend.GoldenCrossStrategy)
			fast, slow := saEma(g.FastEma.Period, fClose(snaps)), saEma(g.SlowEma.Period, fClose(snaps))
			return decide(len(snaps), g.SlowEma.IdlePeriod(), func(i int) (strategy.Action, bool) {
				exempt := fast[i] == slow[i]
				if fast[i] > slow[i] {
					return strategy.Buy, exempt
				}
				if fast[i] < slow[i] {
					return strategy.Sell, exempt
				}
				return strategy.Hold, exempt
			})
		},
		Cols: func(s strategy.Strategy, snaps []*asset.Snapshot) map[string][]float64 {
			g := s.(*strend.GoldenCrossStrategy)
			return map[string][]float64{"Fast": saEma(g.FastEma.Period, fClose(snaps)), "Slow": saEma(g.SlowEma.Period, fClose(snaps))}
		},
	})

	// KAMA strategy. cfg = efficiency-ratio period, fast SC period, slow SC period.
	// Doc: closing price crossing above the KAMA -> bullish (Buy), crossing below ->
	// bearish (Sell); Appendix B reading: close > kama / close < kama.
	// Warm-up: Kama.IdlePeriod() = ER period.
	regS(&Strat{
		Name: "Kama",
		Make: func(cfg []int, dflt bool) strategy.Strategy {
			if dflt {
				return strend.NewKamaStrategy()
			}
			return strend.NewKamaStrategyWith(cfg[0], cfg[1], cfg[2])
		},
		Warm: func(s strategy.Strategy) int { return s.(*strend.KamaStrategy).Kama.IdlePeriod() },
		Rule: func(s strategy.Strategy, snaps []*asset.Snapshot) ([]strategy.Action, []bool) {
			k := s.(*strend.KamaStrategy).Kama
			c := fClose(snaps)
			kama := saKama(k, c)
			return decide(len(snaps), k.IdlePeriod(), func(i int) (strategy.Action, bool) {
				exempt := c[i] == kama[i]
				if c[i] > kama[i] {
					return strategy.Buy, exempt
				}
				if c[i] < kama[i] {
					return strategy.Sell, exempt
				}
				return strategy.Hold, exempt
			})
		},
		Cols: func(s strategy.Strategy, snaps []*asset.Snapshot) map[string][]float64 {
			return map[string][]float64{"KAMA": saKama(s.(*strend.KamaStrategy).Kama, fClose(snaps))}
		},
	})
}
