package h

import "verif/harness/vrt"

// Engine self-tests: programs whose defect the engine MUST report (run with every
// C03/C09 check so that a certificate that silently stopped detecting anything
// makes the check incomplete instead of green).

// H_Self_Race: two goroutines write one variable without synchronisation.
func H_Self_Race() {
	x := 0
	d1, d2 := make(chan struct{}), make(chan struct{})
	go func() { x = 1; close(d1) }()
	go func() { x = 2; close(d2) }()
	<-d1
	<-d2
	vrt.Assert("use", x == 1 || x == 2)
	vrt.Reach("end")
}

// H_Self_TwoReaders: two goroutines drain one channel concurrently (legitimate
// nondeterminism: the certificate must NOT be issued).
func H_Self_TwoReaders() {
	c := make(chan int)
	d1, d2 := make(chan struct{}), make(chan struct{})
	go func() {
		for range c {
		}
		close(d1)
	}()
	go func() {
		for range c {
		}
		close(d2)
	}()
	c <- 1
	c <- 2
	close(c)
	<-d1
	<-d2
	vrt.Reach("end")
}

// H_Self_Leak: a goroutine is left blocked on a send nobody receives.
func H_Self_Leak() {
	c := make(chan int)
	go func() { c <- 1 }()
	vrt.Reach("end")
}

// H_Self_Deadlock: the harness waits for a value nobody sends.
func H_Self_Deadlock() {
	c := make(chan int)
	<-c
	vrt.Reach("end")
}

// H_Self_Violation: an assertion that fails for exactly one input value.
func H_Self_Violation() {
	x := vrt.Float64("x")
	vrt.Assert("not_three_halves", x*2 != 3)
	vrt.Reach("end")
}

// H_Self_Select: the executor's restricted select: a free list with try-receive and
// try-send (select with default) behaves like the native run.
func H_Self_Select() {
	free := make(chan int, 1)
	take := func() int {
		select {
		case v := <-free:
			return v
		default:
		}
		return -1
	}
	give := func(v int) bool {
		select {
		case free <- v:
			return true
		default:
		}
		return false
	}
	vrt.Assert("empty_take", take() == -1)
	vrt.Assert("give_fits", give(7))
	vrt.Assert("give_full", !give(8))
	vrt.Assert("take_back", take() == 7)
	vrt.Assert("empty_again", take() == -1)
	vrt.Reach("end")
}
