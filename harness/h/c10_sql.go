package h

import (
	"database/sql"
	"database/sql/driver"
	"errors"
	"io"
	"sync"
	"time"

	"github.com/cinar/indicator/v2/asset"
	"verif/harness/vrt"
)

// The SQL repository over "a conforming database driver": a table of
// (name, date, open, high, low, close, volume) rows. Two implementations of the
// SAME table contract:
//   - symbolic run: the database/sql entry points used by asset.SQLRepository are
//     replaced by the stub functions below (vrt.Stub);
//   - native replay: a minimal database/sql/driver ("vrtsql") registered below, so
//     the real database/sql machinery runs end to end.
// Statement texts are markers chosen by vrtDialect.

type vrtDialect struct{}

func (vrtDialect) CreateTable() string { return "VRT CREATE" }
func (vrtDialect) DropTable() string   { return "VRT DROP" }
func (vrtDialect) Assets() string      { return "VRT ASSETS" }
func (vrtDialect) GetSince() string    { return "VRT GETSINCE" }
func (vrtDialect) LastDate() string    { return "VRT LASTDATE" }
func (vrtDialect) Append() string      { return "VRT APPEND" }

type sqlRow struct {
	name string
	snap asset.Snapshot
}

// sqlTable is the shared table model.
type sqlTable struct {
	mu   sync.Mutex
	rows []sqlRow
}

func (t *sqlTable) insert(name string, s asset.Snapshot) {
	t.mu.Lock()
	t.rows = append(t.rows, sqlRow{name, s})
	t.mu.Unlock()
}

func (t *sqlTable) assets() []string {
	t.mu.Lock()
	defer t.mu.Unlock()
	var out []string
	for _, r := range t.rows {
		seen := false
		for _, n := range out {
			if n == r.name {
				seen = true
			}
		}
		if !seen {
			out = append(out, r.name)
		}
	}
	return out
}

func (t *sqlTable) since(name string, bound time.Time) []asset.Snapshot {
	t.mu.Lock()
	defer t.mu.Unlock()
	var out []asset.Snapshot
	for _, r := range t.rows {
		if r.name == name && (r.snap.Date.Equal(bound) || r.snap.Date.After(bound)) {
			out = append(out, r.snap)
		}
	}
	return out
}

func (t *sqlTable) lastDate(name string) (time.Time, bool) {
	t.mu.Lock()
	defer t.mu.Unlock()
	var last time.Time
	found := false
	for _, r := range t.rows {
		// "the date of the last one": rows are kept in insertion order, as the
		// property's map-of-lists model has it (what a dialect's LASTDATE statement
		// does with out-of-order dates is not specified by the repository)
		if r.name == name {
			last, found = r.snap.Date, true
		}
	}
	return last, found
}

// ---- symbolic run: stubs of the database/sql entry points ----

type sqlCursor struct {
	names []string
	snaps []asset.Snapshot
	date  time.Time
	kind  string
	pos   int
	none  bool
}

func installSQLStubs(t *sqlTable) {
	stmts := map[*sql.Stmt]string{}
	// transactions (database/sql contract): a statement bound to a transaction by
	// Tx.Stmt writes into the transaction, becomes visible at Commit, is discarded at
	// Rollback, and is closed ("sql: statement is closed") once the transaction is over
	type txState struct {
		done    bool
		pending []sqlRow
	}
	txs := map[*sql.Tx]*txState{}
	txOf := map[*sql.Stmt]*sql.Tx{}
	vrt.Stub("(*database/sql.DB).Begin", func(db *sql.DB) (*sql.Tx, error) {
		tx := new(sql.Tx)
		txs[tx] = &txState{}
		return tx, nil
	})
	vrt.Stub("(*database/sql.Tx).Stmt", func(tx *sql.Tx, st *sql.Stmt) *sql.Stmt {
		s2 := new(sql.Stmt)
		stmts[s2] = stmts[st]
		txOf[s2] = tx
		return s2
	})
	vrt.Stub("(*database/sql.Tx).Commit", func(tx *sql.Tx) error {
		ts := txs[tx]
		if ts.done {
			return sql.ErrTxDone
		}
		ts.done = true
		for _, r := range ts.pending {
			t.insert(r.name, r.snap)
		}
		return nil
	})
	vrt.Stub("(*database/sql.Tx).Rollback", func(tx *sql.Tx) error {
		ts := txs[tx]
		if ts.done {
			return sql.ErrTxDone
		}
		ts.done = true
		return nil
	})
	rowsOf := map[*sql.Rows]*sqlCursor{}
	rowOf := map[*sql.Row]*sqlCursor{}
	vrt.Stub("database/sql.Open", func(driverName, url string) (*sql.DB, error) { return new(sql.DB), nil })
	vrt.Stub("(*database/sql.DB).Exec", func(db *sql.DB, q string, args any) (sql.Result, error) { return nil, nil })
	vrt.Stub("(*database/sql.DB).Close", func(db *sql.DB) error { return nil })
	vrt.Stub("(*database/sql.DB).Prepare", func(db *sql.DB, q string) (*sql.Stmt, error) {
		s := new(sql.Stmt)
		stmts[s] = q
		return s, nil
	})
	vrt.Stub("(*database/sql.Stmt).Exec", func(s *sql.Stmt, args []any) (sql.Result, error) {
		var ts *txState
		if tx := txOf[s]; tx != nil {
			ts = txs[tx]
			if ts.done {
				return nil, errors.New("sql: statement is closed")
			}
		}
		if stmts[s] == "VRT APPEND" {
			snap := asset.Snapshot{Date: args[1].(time.Time), Open: args[2].(float64), High: args[3].(float64),
				Low: args[4].(float64), Close: args[5].(float64), Volume: args[6].(float64)}
			if ts != nil {
				ts.pending = append(ts.pending, sqlRow{args[0].(string), snap})
			} else {
				t.insert(args[0].(string), snap)
			}
		}
		return nil, nil
	})
	vrt.Stub("(*database/sql.Stmt).Query", func(s *sql.Stmt, args []any) (*sql.Rows, error) {
		r := new(sql.Rows)
		switch stmts[s] {
		case "VRT ASSETS":
			rowsOf[r] = &sqlCursor{kind: "assets", names: t.assets()}
		case "VRT GETSINCE":
			rowsOf[r] = &sqlCursor{kind: "since", snaps: t.since(args[0].(string), args[1].(time.Time))}
		default:
			return nil, errors.New("unknown statement")
		}
		return r, nil
	})
	vrt.Stub("(*database/sql.Stmt).QueryRow", func(s *sql.Stmt, args []any) *sql.Row {
		r := new(sql.Row)
		d, ok := t.lastDate(args[0].(string))
		rowOf[r] = &sqlCursor{kind: "lastdate", date: d, none: !ok}
		return r
	})
	vrt.Stub("(*database/sql.Rows).Next", func(r *sql.Rows) bool {
		c := rowsOf[r]
		if c.kind == "assets" {
			return c.pos < len(c.names)
		}
		return c.pos < len(c.snaps)
	})
	vrt.Stub("(*database/sql.Rows).Scan", func(r *sql.Rows, dest []any) error {
		c := rowsOf[r]
		if c.kind == "assets" {
			*(dest[0].(*string)) = c.names[c.pos]
		} else {
			s := c.snaps[c.pos]
			*(dest[0].(*time.Time)) = s.Date
			*(dest[1].(*float64)) = s.Open
			*(dest[2].(*float64)) = s.High
			*(dest[3].(*float64)) = s.Low
			*(dest[4].(*float64)) = s.Close
			*(dest[5].(*float64)) = s.Volume
		}
		c.pos++
		return nil
	})
	vrt.Stub("(*database/sql.Rows).Close", func(r *sql.Rows) error { return nil })
	vrt.Stub("(*database/sql.Rows).Err", func(r *sql.Rows) error { return nil })
	vrt.Stub("(*database/sql.Row).Scan", func(r *sql.Row, dest []any) error {
		c := rowOf[r]
		if c.none {
			return sql.ErrNoRows
		}
		*(dest[0].(*time.Time)) = c.date
		return nil
	})
}

// ---- native replay: a minimal driver over the same table ----

var nativeTable *sqlTable

type fakeDriver struct{}
type fakeConn struct {
	inTx    bool
	pending []sqlRow
}
type fakeStmt struct {
	q string
	c *fakeConn
}
type fakeTx struct{ c *fakeConn }

func (t fakeTx) Commit() error {
	for _, r := range t.c.pending {
		nativeTable.insert(r.name, r.snap)
	}
	t.c.pending, t.c.inTx = nil, false
	return nil
}
func (t fakeTx) Rollback() error {
	t.c.pending, t.c.inTx = nil, false
	return nil
}

type fakeRows struct {
	c *sqlCursor
}

func (fakeDriver) Open(name string) (driver.Conn, error)  { return &fakeConn{}, nil }
func (c *fakeConn) Prepare(q string) (driver.Stmt, error) { return &fakeStmt{q, c}, nil }
func (c *fakeConn) Close() error                          { return nil }
func (c *fakeConn) Begin() (driver.Tx, error) {
	c.inTx = true
	return fakeTx{c}, nil
}
func (s *fakeStmt) Close() error  { return nil }
func (s *fakeStmt) NumInput() int { return -1 }
func (s *fakeStmt) Exec(args []driver.Value) (driver.Result, error) {
	if s.q == "VRT APPEND" {
		snap := asset.Snapshot{Date: args[1].(time.Time), Open: args[2].(float64), High: args[3].(float64),
			Low: args[4].(float64), Close: args[5].(float64), Volume: args[6].(float64)}
		if s.c.inTx {
			s.c.pending = append(s.c.pending, sqlRow{args[0].(string), snap})
		} else {
			nativeTable.insert(args[0].(string), snap)
		}
	}
	return driver.RowsAffected(1), nil
}
func (s *fakeStmt) Query(args []driver.Value) (driver.Rows, error) {
	switch s.q {
	case "VRT ASSETS":
		return &fakeRows{&sqlCursor{kind: "assets", names: nativeTable.assets()}}, nil
	case "VRT GETSINCE":
		return &fakeRows{&sqlCursor{kind: "since", snaps: nativeTable.since(args[0].(string), args[1].(time.Time))}}, nil
	case "VRT LASTDATE":
		d, ok := nativeTable.lastDate(args[0].(string))
		return &fakeRows{&sqlCursor{kind: "lastdate", date: d, none: !ok}}, nil
	}
	return nil, errors.New("unknown statement")
}
func (r *fakeRows) Columns() []string {
	switch r.c.kind {
	case "assets":
		return []string{"name"}
	case "lastdate":
		return []string{"date"}
	}
	return []string{"date", "open", "high", "low", "close", "volume"}
}
func (r *fakeRows) Close() error { return nil }
func (r *fakeRows) Next(dest []driver.Value) error {
	c := r.c
	switch c.kind {
	case "assets":
		if c.pos >= len(c.names) {
			return io.EOF
		}
		dest[0] = c.names[c.pos]
	case "lastdate":
		if c.none || c.pos > 0 {
			return io.EOF
		}
		dest[0] = c.date
	default:
		if c.pos >= len(c.snaps) {
			return io.EOF
		}
		s := c.snaps[c.pos]
		dest[0], dest[1], dest[2], dest[3], dest[4], dest[5] = s.Date, s.Open, s.High, s.Low, s.Close, s.Volume
	}
	c.pos++
	return nil
}

var registerOnce sync.Once

// newSQLRepo builds the real asset.SQLRepository over the table model.
func newSQLRepo() asset.Repository {
	t := &sqlTable{}
	installSQLStubs(t) // symbolic run
	nativeTable = t    // native run
	if !vrt.Symbolic() {
		registerOnce.Do(func() { sql.Register("vrtsql", fakeDriver{}) })
	}
	r, err := asset.NewSQLRepository("vrtsql", "", vrtDialect{})
	vrt.Assert("sql_open_ok", err == nil)
	return r
}
