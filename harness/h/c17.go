package h

import (
	"github.com/cinar/indicator/v2/helper"
	"github.com/cinar/indicator/v2/trend"
	"verif/harness/vrt"
)

// ---- Ring: one inductive step from an arbitrary valid state ----

// ringAbs returns the abstract content (oldest first) of a ring state.
func ringAbs[T any](buf []T, begin, end int, empty bool) []T {
	if empty {
		return nil
	}
	n := len(buf)
	cnt := (end-begin+n-1)%n + 1
	out := make([]T, 0, cnt)
	for i := 0; i < cnt; i++ {
		out = append(out, buf[(begin+i)%n])
	}
	return out
}

func ringState[T any](r *helper.Ring[T]) ([]T, int, int, bool) {
	return vrt.GetField(r, "buffer").([]T), vrt.GetField(r, "begin").(int), vrt.GetField(r, "end").(int), vrt.GetField(r, "empty").(bool)
}

func eqSlices[T comparable](label string, a, b []T) {
	vrt.Assert(label+"_len", len(a) == len(b))
	for i := range a {
		if i < len(b) {
			vrt.AssertEqAt(label, i, a[i], b[i])
		}
	}
}

func ringStep[T helper.Number](capacity, begin, end, empty, op, arg int) {
	// representation invariant: indices in range; empty => begin == end
	if begin < 0 || begin >= capacity || end < 0 || end >= capacity || (empty == 1 && begin != end) {
		vrt.Reach("invalid-state")
		return
	}
	r := helper.NewRing[T](capacity)
	if vrt.NumFields(r) != 4 {
		// the representation is no longer {buffer, begin, end, empty}: the states built
		// below would not be states of the real type; the history harness still applies
		vrt.Note("ring_representation_changed", vrt.NumFields(r))
		return
	}
	buf := make([]T, capacity)
	for i := range buf {
		buf[i] = vrt.Num[T]("b", i)
	}
	vrt.SetField(r, "buffer", buf)
	vrt.SetField(r, "begin", begin)
	vrt.SetField(r, "end", end)
	vrt.SetField(r, "empty", empty == 1)
	pre := ringAbs(append([]T(nil), buf...), begin, end, empty == 1)
	var want []T
	switch op {
	case 0: // Put
		v := vrt.Num[T]("v")
		got := r.Put(v)
		if len(pre) == capacity {
			vrt.AssertEq("put_returns_oldest", got, pre[0])
			want = append(append([]T(nil), pre[1:]...), v)
		} else {
			want = append(append([]T(nil), pre...), v)
		}
	case 1: // Get
		got, ok := r.Get()
		if len(pre) == 0 {
			vrt.Assert("get_empty_not_ok", !ok)
			want = pre
		} else {
			vrt.Assert("get_ok", ok)
			vrt.AssertEq("get_returns_oldest", got, pre[0])
			want = pre[1:]
		}
	case 2: // At(arg): positional read counts from the oldest
		if arg >= len(pre) {
			vrt.Reach("at-outside")
			return
		}
		vrt.AssertEq("at", r.At(arg), pre[arg])
		want = pre
	case 3:
		vrt.Assert("isfull", r.IsFull() == (len(pre) == capacity))
		vrt.Assert("isempty", r.IsEmpty() == (len(pre) == 0))
		want = pre
	}
	nb, b2, e2, em2 := ringState(r)
	vrt.Assert("inv_range", b2 >= 0 && b2 < capacity && e2 >= 0 && e2 < capacity && len(nb) == capacity)
	vrt.Assert("inv_empty", !em2 || b2 == e2)
	eqSlices("content", ringAbs(nb, b2, e2, em2), want)
	vrt.Reach("end")
}

// H_C17_RingStep_*: inductive step for element types int8, int64, float64.
func H_C17_RingStepI8(capacity, begin, end, empty, op, arg int) {
	ringStep[int8](capacity, begin, end, empty, op, arg)
}
func H_C17_RingStepI64(capacity, begin, end, empty, op, arg int) {
	ringStep[int64](capacity, begin, end, empty, op, arg)
}
func H_C17_RingStepF64(capacity, begin, end, empty, op, arg int) {
	ringStep[float64](capacity, begin, end, empty, op, arg)
}

// H_C17_RingHist: histories from NewRing with symbolic operation kinds: the
// bounded-FIFO model is compared after every step; also shows that every state
// reached satisfies the representation invariant assumed by the step harness.
func H_C17_RingHist(capacity, steps int) {
	r := helper.NewRing[int64](capacity)
	var model []int64
	for s := 0; s < steps; s++ {
		op := vrt.Int("op", s)
		vrt.Assume(op >= 0 && op <= 1)
		if op == 0 {
			v := vrt.Int64("v", s)
			got := r.Put(v)
			if len(model) == capacity {
				vrt.AssertEqAt("put_returns_oldest", s, got, model[0])
				model = append(append([]int64(nil), model[1:]...), v)
			} else {
				model = append(append([]int64(nil), model...), v)
			}
		} else {
			got, ok := r.Get()
			if len(model) == 0 {
				vrt.AssertAt("get_empty", s, !ok)
			} else {
				vrt.AssertAt("get_ok", s, ok)
				vrt.AssertEqAt("get_oldest", s, got, model[0])
				model = model[1:]
			}
		}
		vrt.AssertAt("isfull", s, r.IsFull() == (len(model) == capacity))
		vrt.AssertAt("isempty", s, r.IsEmpty() == (len(model) == 0))
		for i := range model {
			vrt.AssertEqAt(vrt.Name("at", s), i, r.At(i), model[i])
		}
		_, b, e, em := ringState(r)
		vrt.AssertAt("inv", s, b >= 0 && b < capacity && e >= 0 && e < capacity && (!em || b == e))
	}
	vrt.Reach("end")
}

// ---- Bst: histories against a multiset model ----

type msEntry[T helper.Number] struct {
	val     T
	present bool
}

func bstHist[T helper.Number](steps int) {
	b := helper.NewBst[T]()
	var ms []msEntry[T]
	for s := 0; s < steps; s++ {
		op := vrt.Int("op", s)
		vrt.Assume(op >= 0 && op <= 1)
		v := vrt.Num[T]("v", s)
		if op == 0 {
			b.Insert(v)
			ms = append(ms, msEntry[T]{v, true})
		} else {
			got := b.Remove(v)
			found := false
			for i := range ms {
				hit := ms[i].present && !found && ms[i].val == v
				if hit {
					ms[i].present = false
					found = true
				}
			}
			vrt.AssertAt("remove_result", s, got == found)
		}
		// observations after every step: min / max (no data-dependent search in the tree)
		any := false
		var mn, mx T
		for i := range ms {
			if ms[i].present {
				if !any || ms[i].val < mn {
					mn = ms[i].val
				}
				if !any || ms[i].val > mx {
					mx = ms[i].val
				}
				any = true
			}
		}
		if any {
			vrt.AssertEqAt("min", s, b.Min(), mn)
			vrt.AssertEqAt("max", s, b.Max(), mx)
		} else {
			vrt.AssertEqAt("min_empty", s, b.Min(), T(0))
			vrt.AssertEqAt("max_empty", s, b.Max(), T(0))
		}
	}
	// membership of an arbitrary probe value after the whole history
	q := vrt.Num[T]("q")
	has := false
	for i := range ms {
		if ms[i].present && ms[i].val == q {
			has = true
		}
	}
	vrt.Assert("contains", b.Contains(q) == has)
	vrt.Reach("end")
}

func H_C17_BstI8(steps int)  { bstHist[int8](steps) }
func H_C17_BstI16(steps int) { bstHist[int16](steps) }
func H_C17_BstI32(steps int) { bstHist[int32](steps) }
func H_C17_BstI64(steps int) { bstHist[int64](steps) }
func H_C17_BstInt(steps int) { bstHist[int](steps) }
func H_C17_BstF32(steps int) { bstHist[float32](steps) } // run in fp mode
func H_C17_BstF64(steps int) { bstHist[float64](steps) } // run in fp mode

// ---- Bst: one inductive step from an arbitrary valid tree (any history length) ----

// shape of a binary tree: nil = empty
type bshape struct{ l, r *bshape }

// shapesOf enumerates all binary tree shapes with exactly n nodes.
func shapesOf(n int) []*bshape {
	if n == 0 {
		return []*bshape{nil}
	}
	var out []*bshape
	for k := 0; k < n; k++ {
		for _, l := range shapesOf(k) {
			for _, r := range shapesOf(n - 1 - k) {
				out = append(out, &bshape{l, r})
			}
		}
	}
	return out
}

type bnodeInfo[T helper.Number] struct {
	node *helper.BstNode[T]
	val  T
}

// buildTree materialises a shape with fresh symbolic values; collects nodes in-order.
func buildTree[T helper.Number](s *bshape, next *int, nodes *[]bnodeInfo[T]) *helper.BstNode[T] {
	if s == nil {
		return nil
	}
	n := new(helper.BstNode[T])
	l := buildTree(s.l, next, nodes)
	v := vrt.Num[T]("t", *next)
	*next = *next + 1
	*nodes = append(*nodes, bnodeInfo[T]{n, v})
	r := buildTree(s.r, next, nodes)
	vrt.SetField(n, "value", v)
	if l != nil {
		vrt.SetField(n, "left", l)
	}
	if r != nil {
		vrt.SetField(n, "right", r)
	}
	return n
}

// subtree bounds: every value in the left subtree <= node value <= every value in the right subtree.
// (Insert alone keeps the right side strict, but removing a two-child node moves the minimum of its
// right subtree up while an equal value may stay below it, so the strict form is not inductive;
// the non-strict form is, and it suffices for Contains / Remove / Min / Max.)
func assumeSearchInv[T helper.Number](s *bshape, vals []T, lo, hi int) {
	// vals[lo:hi] are the in-order values of this subtree; root index = lo + size(left)
	if s == nil {
		return
	}
	k := lo + sizeOf(s.l)
	for i := lo; i < k; i++ {
		vrt.Assume(vals[i] <= vals[k])
	}
	for i := k + 1; i < hi; i++ {
		vrt.Assume(vals[k] <= vals[i])
	}
	assumeSearchInv(s.l, vals, lo, k)
	assumeSearchInv(s.r, vals, k+1, hi)
}

func sizeOf(s *bshape) int {
	if s == nil {
		return 0
	}
	return 1 + sizeOf(s.l) + sizeOf(s.r)
}

// walk the real tree after the operation: in-order values, and the invariant
func inorder[T helper.Number](n *helper.BstNode[T], depth int, out *[]T, ok *bool, hasLo bool, lo T, hasHi bool, hi T) {
	if n == nil || depth > 8 {
		return
	}
	v := vrt.GetField(n, "value").(T)
	if hasLo && !(v >= lo) {
		*ok = false
	}
	if hasHi && !(v <= hi) {
		*ok = false
	}
	l := vrt.GetField(n, "left").(*helper.BstNode[T])
	r := vrt.GetField(n, "right").(*helper.BstNode[T])
	inorder(l, depth+1, out, ok, hasLo, lo, true, v)
	*out = append(*out, v)
	inorder(r, depth+1, out, ok, true, v, hasHi, hi)
}

func bstStep[T helper.Number](size, shape, op int) {
	shapes := shapesOf(size)
	if shape >= len(shapes) {
		vrt.Reach("no-such-shape")
		return
	}
	b := helper.NewBst[T]()
	probe := new(helper.BstNode[T])
	if vrt.NumFields(b) != 1 || vrt.NumFields(probe) != 3 {
		vrt.Note("bst_representation_changed", 1)
		return
	}
	next := 0
	var nodes []bnodeInfo[T]
	root := buildTree[T](shapes[shape], &next, &nodes)
	vals := make([]T, len(nodes))
	for i := range nodes {
		vals[i] = nodes[i].val
	}
	assumeSearchInv(shapes[shape], vals, 0, len(vals))
	if root != nil {
		vrt.SetField(b, "root", root)
	}
	x := vrt.Num[T]("x")
	// multiset before: vals; expected after
	want := append([]T(nil), vals...)
	switch op {
	case 0:
		b.Insert(x)
		want = append(want, x)
	case 1:
		got := b.Remove(x)
		found := false
		var rest []msEntry[T]
		for _, v := range vals {
			hit := !found && v == x
			if hit {
				found = true
			}
			rest = append(rest, msEntry[T]{v, !hit})
		}
		vrt.Assert("remove_result", got == found)
		// compare as multisets below through counts of x and of every old value
		cnt := func(q T, xs []T) int {
			c := 0
			for _, v := range xs {
				if v == q {
					c++
				}
			}
			return c
		}
		var after []T
		okInv := true
		var zero T
		inorder(vrt.GetField(b, "root").(*helper.BstNode[T]), 0, &after, &okInv, false, zero, false, zero)
		vrt.Assert("invariant_after", okInv)
		exp := len(vals)
		if found {
			exp--
		}
		vrt.Assert("size_after", len(after) == exp)
		dx := 0
		if found {
			dx = 1
		}
		vrt.Assert("count_x", cnt(x, after) == cnt(x, vals)-dx)
		for i, v := range vals {
			d := 0
			if found && v == x {
				d = 1
			}
			vrt.AssertAt("count_old", i, cnt(v, after) == cnt(v, vals)-d)
		}
		vrt.Reach("end")
		return
	case 2:
		has := false
		for _, v := range vals {
			if v == x {
				has = true
			}
		}
		vrt.Assert("contains", b.Contains(x) == has)
	case 3:
		if len(vals) > 0 {
			mn, mx := vals[0], vals[0]
			for _, v := range vals {
				if v < mn {
					mn = v
				}
				if v > mx {
					mx = v
				}
			}
			vrt.AssertEq("min", b.Min(), mn)
			vrt.AssertEq("max", b.Max(), mx)
		} else {
			vrt.AssertEq("min_empty", b.Min(), T(0))
			vrt.AssertEq("max_empty", b.Max(), T(0))
		}
	}
	var after []T
	okInv := true
	var zero T
	inorder(vrt.GetField(b, "root").(*helper.BstNode[T]), 0, &after, &okInv, false, zero, false, zero)
	vrt.Assert("invariant_after", okInv)
	vrt.Assert("size_after", len(after) == len(want))
	if op == 0 {
		cnt := func(q T, xs []T) int {
			c := 0
			for _, v := range xs {
				if v == q {
					c++
				}
			}
			return c
		}
		vrt.Assert("count_x", cnt(x, after) == cnt(x, vals)+1)
		for i, v := range vals {
			d := 0
			if v == x {
				d = 1
			}
			vrt.AssertAt("count_old", i, cnt(v, after) == cnt(v, vals)+d)
		}
	}
	vrt.Reach("end")
}

// H_C17_BstStep*: one arbitrary operation (0 Insert, 1 Remove, 2 Contains, 3 Min/Max)
// on an arbitrary valid tree of the given size and shape.
func H_C17_BstStepI8(size, shape, op int)  { bstStep[int8](size, shape, op) }
func H_C17_BstStepI64(size, shape, op int) { bstStep[int64](size, shape, op) }
func H_C17_BstStepF64(size, shape, op int) { bstStep[float64](size, shape, op) } // fp mode

// H_C17_MovingInt: the search tree's main client over an INTEGER element type:
// trend.MovingMax / MovingMin[int8] on arbitrary int8 inputs (the extremes of the
// type included) equal the window maximum / minimum.
func H_C17_MovingInt(period, n, isMin int) {
	in := make([]int8, n)
	for i := range in {
		in[i] = vrt.Int8("x", i)
	}
	var got []int8
	if isMin == 1 {
		got = Collect1(trend.NewMovingMinWithPeriod[int8](period).Compute(Src(in, 0)))
	} else {
		got = Collect1(trend.NewMovingMaxWithPeriod[int8](period).Compute(Src(in, 0)))
	}
	want := n - period + 1
	if want < 0 {
		want = 0
	}
	vrt.Assert("len", len(got) == want)
	for k := range got {
		m := in[k]
		for j := k + 1; j < k+period && j < n; j++ {
			if isMin == 1 {
				m = vrt.Ite(in[j] < m, in[j], m)
			} else {
				m = vrt.Ite(in[j] > m, in[j], m)
			}
		}
		vrt.AssertAt("window_extreme", k, got[k] == m)
	}
	vrt.Reach("end")
}
