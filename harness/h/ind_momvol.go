package h

import (
	"github.com/cinar/indicator/v2/momentum"
	"github.com/cinar/indicator/v2/trend"
	"github.com/cinar/indicator/v2/volume"
)

// Table entries for the packages momentum and volume.
//
// Every Ref restates the DOC COMMENT of the type (with the reading fixed in
// DESIGN.md Appendix A where the comment is ambiguous); positions after i are
// never touched (series are built on x[:i+1]).
//
// The KF* predicates describe the library snapshot (commit "snapshot"). Those that
// are consequences of the Ema/Rma "one spurious value for fewer than Period inputs"
// defect (ids KF-C02-ema-spurious-zero, KF-C03-ppo/pvo-short-input,
// KF-C02-rsi-spurious-nan) no longer reproduce once that defect is fixed in the
// library; their assertions then simply hold.

// ---- reference helpers (documented sub-formulas) ----

// mvUpTo cuts a stream after position i.
func mvUpTo(x []float64, i int) []float64 { return x[:i+1] }

// mvMfm: MFM = ((Closing - Low) - (High - Closing)) / (High - Low) at position j.
func mvMfm(h, l, c []float64, j int) float64 {
	return ((c[j] - l[j]) - (h[j] - c[j])) / (h[j] - l[j])
}

// mvMfv: MFV = MFM * Volume at position j.
func mvMfv(h, l, c, v []float64, j int) float64 { return mvMfm(h, l, c, j) * v[j] }

// mvAdSeries: AD_j = AD_{j-1} + MFV_j, AD_{-1} = 0, for j in [0, i].
func mvAdSeries(h, l, c, v []float64, i int) []float64 {
	out := make([]float64, i+1)
	prev := 0.0
	for j := 0; j <= i; j++ {
		prev = prev + mvMfv(h, l, c, v, j)
		out[j] = prev
	}
	return out
}

// mvTypical: (h+l+c)/3.
func mvTypical(h, l, c []float64, j int) float64 { return (h[j] + l[j] + c[j]) / 3 }

// mvPpo: the three documented lines of PPO/PVO (o = 0 ppo, 1 signal, 2 histogram).
//
//	PPO = ((EMA(short) - EMA(long)) / EMA(long)) * 100 ; Signal = EMA(G, PPO) ; Histogram = PPO - Signal
func mvPpo(cfg []int, xs []float64, o, i int) float64 {
	x := mvUpTo(xs, i)
	eS, eL := rEMA(x, cfg[0]), rEMA(x, cfg[1])
	from := cfg[1] - 1 // first position with both EMAs
	ppo := rMapIdx(len(x), from, func(j int) float64 { return ((eS[j] - eL[j]) / eL[j]) * 100 })
	if o == 0 {
		return ppo[i]
	}
	sig := rEMA(rTail(ppo, from), cfg[2])[i-from]
	if o == 1 {
		return sig
	}
	return ppo[i] - sig
}

// mvRsiSeries: RS = Average Gain / Average Loss, RSI = 100 - 100/(1+RS); the
// averages are Wilder's (RMA_P) over the gains / losses of the changes
// c_j - c_{j-1}; result[j] valid for j >= p, computed for j <= i only.
func mvRsiSeries(cs []float64, p, i int) []float64 {
	c := mvUpTo(cs, i)
	n := len(c)
	out := make([]float64, n)
	if n < p+1 {
		return out
	}
	gain := make([]float64, n-1) // gain[j-1] belongs to position j
	loss := make([]float64, n-1)
	for j := 1; j < n; j++ {
		d := c[j] - c[j-1]
		if d > 0 {
			gain[j-1] = d
		} else if d < 0 {
			loss[j-1] = -d
		}
	}
	ag, al := rRMA(gain, p), rRMA(loss, p)
	for j := p; j < n; j++ {
		rs := ag[j-1] / al[j-1]
		out[j] = 100 - (100 / (1 + rs))
	}
	return out
}

// mvStochK: K = (Closing - Lowest Low) / (Highest High - Lowest Low) * 100 at j.
func mvStochK(h, l, c []float64, p, j int) float64 {
	lo, hi := rMin(l, p, j), rMax(h, p, j)
	return (c[j] - lo) / (hi - lo) * 100
}

func mvAlways(id string) func(cfg []int, n, o, k int) string {
	return func(cfg []int, n, o, k int) string { return id }
}

func init() {
	// ------------------------------------------------------------------ momentum

	// AwesomeOscillator(S,L): Median = (Low+High)/2 ; AO = SMA_S(Median) - SMA_L(Median).
	reg(&Ind{
		Name: "AwesomeOscillator", In: "hl", NOut: 1,
		Make: func(cfg []int) any {
			// the constructor first, then the exported fields: the way a user configures it
			a := momentum.NewAwesomeOscillator[float64]()
			a.ShortSma = trend.NewSmaWithPeriod[float64](cfg[0])
			a.LongSma = trend.NewSmaWithPeriod[float64](cfg[1])
			return a
		},
		Idle: func(inst any, cfg []int) int { return inst.(*momentum.AwesomeOscillator[float64]).IdlePeriod() },
		Run: func(inst any, in []<-chan float64) []<-chan float64 {
			return one(inst.(*momentum.AwesomeOscillator[float64]).Compute(in[0], in[1]))
		},
		Ref: func(cfg []int, in [][]float64, o, i int) float64 {
			h, l := in[0], in[1]
			m := rMapIdx(i+1, i-cfg[1]+1, func(j int) float64 { return (l[j] + h[j]) / 2 })
			return rSMA(m, cfg[0], i) - rSMA(m, cfg[1], i)
		},
		Deg: [][2]int{{1, 0}},
	})

	// ChaikinOscillator(S,L): CO = Ema(S, AD) - Ema(L, AD); second output is the AD line itself.
	reg(&Ind{
		Name: "ChaikinOscillator", In: "hlcv", NOut: 2,
		Make: func(cfg []int) any {
			c := momentum.NewChaikinOscillator[float64]()
			c.ShortEma = trend.NewEmaWithPeriod[float64](cfg[0])
			c.LongEma = trend.NewEmaWithPeriod[float64](cfg[1])
			return c
		},
		Idle: func(inst any, cfg []int) int { return inst.(*momentum.ChaikinOscillator[float64]).IdlePeriod() },
		Run: func(inst any, in []<-chan float64) []<-chan float64 {
			a, b := inst.(*momentum.ChaikinOscillator[float64]).Compute(in[0], in[1], in[2], in[3])
			return []<-chan float64{a, b}
		},
		Ref: func(cfg []int, in [][]float64, o, i int) float64 {
			ad := mvAdSeries(in[0], in[1], in[2], in[3], i)
			if o == 1 {
				return ad[i]
			}
			return rEMA(ad, cfg[0])[i] - rEMA(ad, cfg[1])[i]
		},
		Deg: [][2]int{{0, 1}, {0, 1}},
		KFLen: func(cfg []int, n int) string {
			// inherited: Ema emits one spurious value when it gets fewer than Period inputs.
			// With S < L the Skip(L-S) on the short branch swallows it; only S == L shows it
			// (output 0 gets one value for n < L, the AD output stays empty).
			if cfg[0] == cfg[1] && n < cfg[1] {
				return "KF-C02-ema-spurious-zero"
			}
			return ""
		},
	})

	// IchimokuCloud(conversion, base, leadingB; lagging period := base period = cfg[1],
	// as with the defaults 9/26/52/26). Requires conversion <= base <= leadingB.
	//   conv = (max_c(h)+min_c(l))/2 ; base = (max_b(h)+min_b(l))/2 ; A = (conv+base)/2 ;
	//   B = (max_ld(h)+min_ld(l))/2 ; lagging_i = closing_{i-lag} (Appendix A's reading of
	//   "Closing plotted 26 days in the past"; no value is documented for i < lag).
	reg(&Ind{
		Name: "IchimokuCloud", In: "hlc", NOut: 5,
		Make: func(cfg []int) any {
			ic := momentum.NewIchimokuCloud[float64]()
			ic.ConversionMax = trend.NewMovingMaxWithPeriod[float64](cfg[0])
			ic.ConversionMin = trend.NewMovingMinWithPeriod[float64](cfg[0])
			ic.BaseMax = trend.NewMovingMaxWithPeriod[float64](cfg[1])
			ic.BaseMin = trend.NewMovingMinWithPeriod[float64](cfg[1])
			ic.LeadingMax = trend.NewMovingMaxWithPeriod[float64](cfg[2])
			ic.LeadingMin = trend.NewMovingMinWithPeriod[float64](cfg[2])
			ic.LaggingPeriod = cfg[1]
			return ic
		},
		Idle: func(inst any, cfg []int) int { return inst.(*momentum.IchimokuCloud[float64]).IdlePeriod() },
		Run: func(inst any, in []<-chan float64) []<-chan float64 {
			a, b, c, d, e := inst.(*momentum.IchimokuCloud[float64]).Compute(in[0], in[1], in[2])
			return []<-chan float64{a, b, c, d, e}
		},
		Ref: func(cfg []int, in [][]float64, o, i int) float64 {
			h, l, c := in[0], in[1], in[2]
			line := func(p int) float64 { return (rMax(h, p, i) + rMin(l, p, i)) / 2 }
			switch o {
			case 0:
				return line(cfg[0])
			case 1:
				return line(cfg[1])
			case 2:
				return (line(cfg[0]) + line(cfg[1])) / 2
			case 3:
				return line(cfg[2])
			}
			lag := cfg[1]
			if i-lag < 0 {
				// no closing exists `lag` positions back: the documentation defines no
				// value here (the code emits the Shift fill 0); see KF below.
				return 1 // placeholder, deliberately not the fill value
			}
			return c[i-lag]
		},
		Deg: [][2]int{{1, 0}, {1, 0}, {1, 0}, {1, 0}, {1, 0}},
		// lagging_i = closing_{i-lag} does not depend on the newest input by definition.
		NoNewest: []bool{false, false, false, false, true},
		KF: func(cfg []int, n, o, k int) string {
			// only reachable when base == leadingB (i = ld-1 = lag-1)
			if o == 4 && k+cfg[2]-1 < cfg[1] {
				return "KF-C01-ichimoku-lagging-zero-fill"
			}
			return ""
		},
		// The lagging span is Shift(closings, lag) |> Skip(ld-1): it has `lag` more values
		// than its four siblings (n+lag-(ld-1) instead of n-(ld-1)). KFLen is per n, not
		// per output, so the whole length check of Ichimoku is routed to this id; outputs
		// 0..3 are expected to hold under it, output 4 to be violated.
		KFLen: func(cfg []int, n int) string {
			if n+cfg[1] > cfg[2]-1 {
				return "KF-C02-ichimoku-lagging-longer"
			}
			return ""
		},
	})

	// Ppo(S,L,G)
	reg(&Ind{
		Name: "Ppo", In: "c", NOut: 3,
		Make: func(cfg []int) any {
			x := momentum.NewPpo[float64]()
			x.ShortEma = trend.NewEmaWithPeriod[float64](cfg[0])
			x.LongEma = trend.NewEmaWithPeriod[float64](cfg[1])
			x.SignalEma = trend.NewEmaWithPeriod[float64](cfg[2])
			return x
		},
		Idle: func(inst any, cfg []int) int { return inst.(*momentum.Ppo[float64]).IdlePeriod() },
		Run: func(inst any, in []<-chan float64) []<-chan float64 {
			a, b, c := inst.(*momentum.Ppo[float64]).Compute(in[0])
			return []<-chan float64{a, b, c}
		},
		Ref: func(cfg []int, in [][]float64, o, i int) float64 { return mvPpo(cfg, in[0], o, i) },
		Deg: [][2]int{{0, 0}, {0, 0}, {0, 0}},
		// n < L (with S < L): LongEma emits its one spurious value while the skipped short
		// branch is empty. Subtract sees its first input closed and Drains copy 0 of
		// Duplicate(longEma,2) until it closes; the duplicator blocks sending to copy 1,
		// whose only reader (Divide) waits for Subtract's output to close: circular wait.
		KFOutcome: func(cfg []int, n int) string {
			if cfg[0] < cfg[1] && n < cfg[1] {
				return "KF-C03-ppo-short-input"
			}
			return ""
		},
		// L <= n <= warm-up: SignalEma gets 1..G-1 values and emits its spurious value on
		// the signal output (ppo and histogram stay empty). Inherited from Ema.
		// (S == L, n < L is outside the documented domain short < long: 0/0 of the two spurious values.)
		KFLen: func(cfg []int, n int) string {
			if n >= cfg[1] && n <= cfg[1]+cfg[2]-2 {
				return "KF-C02-ema-spurious-zero"
			}
			return ""
		},
	})

	// Pvo(S,L,G): the PPO formula on the volume stream.
	reg(&Ind{
		Name: "Pvo", In: "v", NOut: 3,
		Make: func(cfg []int) any {
			x := momentum.NewPvo[float64]()
			x.ShortEma = trend.NewEmaWithPeriod[float64](cfg[0])
			x.LongEma = trend.NewEmaWithPeriod[float64](cfg[1])
			x.SignalEma = trend.NewEmaWithPeriod[float64](cfg[2])
			return x
		},
		Idle: func(inst any, cfg []int) int { return inst.(*momentum.Pvo[float64]).IdlePeriod() },
		Run: func(inst any, in []<-chan float64) []<-chan float64 {
			a, b, c := inst.(*momentum.Pvo[float64]).Compute(in[0])
			return []<-chan float64{a, b, c}
		},
		Ref: func(cfg []int, in [][]float64, o, i int) float64 { return mvPpo(cfg, in[0], o, i) },
		Deg: [][2]int{{0, 0}, {0, 0}, {0, 0}},
		// n < L (with S < L): LongEma emits its one spurious value while the skipped short
		// branch is empty. Subtract sees its first input closed and Drains copy 0 of
		// Duplicate(longEma,2) until it closes; the duplicator blocks sending to copy 1,
		// whose only reader (Divide) waits for Subtract's output to close: circular wait.
		KFOutcome: func(cfg []int, n int) string {
			if cfg[0] < cfg[1] && n < cfg[1] {
				return "KF-C03-pvo-short-input"
			}
			return ""
		},
		// L <= n <= warm-up: SignalEma gets 1..G-1 values and emits its spurious value on
		// the signal output (ppo and histogram stay empty). Inherited from Ema.
		// (S == L, n < L is outside the documented domain short < long: 0/0 of the two spurious values.)
		KFLen: func(cfg []int, n int) string {
			if n >= cfg[1] && n <= cfg[1]+cfg[2]-2 {
				return "KF-C02-ema-spurious-zero"
			}
			return ""
		},
	})

	// Qstick(P): QS = SMA_P(Closings - Openings).
	reg(&Ind{
		Name: "Qstick", In: "oc", NOut: 1,
		Make: func(cfg []int) any {
			q := momentum.NewQstick[float64]()
			q.Sma.Period = cfg[0]
			return q
		},
		Idle: func(inst any, cfg []int) int { return inst.(*momentum.Qstick[float64]).IdlePeriod() },
		Run: func(inst any, in []<-chan float64) []<-chan float64 {
			return one(inst.(*momentum.Qstick[float64]).Compute(in[0], in[1]))
		},
		Ref: func(cfg []int, in [][]float64, o, i int) float64 {
			op, cl := in[0], in[1]
			d := rMapIdx(i+1, i-cfg[0]+1, func(j int) float64 { return cl[j] - op[j] })
			return rSMA(d, cfg[0], i)
		},
		Deg: [][2]int{{1, 0}},
	})

	// Rsi(P)
	reg(&Ind{
		Name: "Rsi", In: "c", NOut: 1,
		Make: func(cfg []int) any { return momentum.NewRsiWithPeriod[float64](cfg[0]) },
		Idle: func(inst any, cfg []int) int { return inst.(*momentum.Rsi[float64]).IdlePeriod() },
		Run: func(inst any, in []<-chan float64) []<-chan float64 {
			return one(inst.(*momentum.Rsi[float64]).Compute(in[0]))
		},
		Ref: func(cfg []int, in [][]float64, o, i int) float64 { return mvRsiSeries(in[0], cfg[0], i)[i] },
		Deg: [][2]int{{0, 0}},
		Lo:  []float64{0}, Hi: []float64{100}, HasRange: []bool{true},
		// Snapshot tree only (before "fix: Ema, Rma and Smma emit nothing ..."): for n <= P
		// both Rma branches emit their spurious 0 and Rsi emits ONE value 0/0 = NaN instead
		// of none. Seen in a native run only: the symbolic run discards the path
		// ("div_by_constant_zero", outcome infeasible), so this predicate is never exercised there.
		KFLen: func(cfg []int, n int) string {
			if n <= cfg[0] {
				return "KF-C02-rsi-spurious-nan"
			}
			return ""
		},
	})

	// StochasticOscillator(P,D): K over P periods, D = SMA_D(K).
	reg(&Ind{
		Name: "StochasticOscillator", In: "hlc", NOut: 2,
		Make: func(cfg []int) any {
			x := momentum.NewStochasticOscillator[float64]()
			x.Max = trend.NewMovingMaxWithPeriod[float64](cfg[0])
			x.Min = trend.NewMovingMinWithPeriod[float64](cfg[0])
			x.Sma = trend.NewSmaWithPeriod[float64](cfg[1])
			return x
		},
		Idle: func(inst any, cfg []int) int { return inst.(*momentum.StochasticOscillator[float64]).IdlePeriod() },
		Run: func(inst any, in []<-chan float64) []<-chan float64 {
			a, b := inst.(*momentum.StochasticOscillator[float64]).Compute(in[0], in[1], in[2])
			return []<-chan float64{a, b}
		},
		Ref: func(cfg []int, in [][]float64, o, i int) float64 {
			h, l, c := in[0], in[1], in[2]
			if o == 0 {
				return mvStochK(h, l, c, cfg[0], i)
			}
			k := rMapIdx(i+1, i-cfg[1]+1, func(j int) float64 { return mvStochK(h, l, c, cfg[0], j) })
			return rSMA(k, cfg[1], i)
		},
		Deg: [][2]int{{0, 0}, {0, 0}},
		Lo:  []float64{0, 0}, Hi: []float64{100, 100}, HasRange: []bool{true, true},
	})

	// StochasticRsi(P): (RSI - Min_P(RSI)) / (Max_P(RSI) - Min_P(RSI)).
	reg(&Ind{
		Name: "StochasticRsi", In: "c", NOut: 1,
		Make: func(cfg []int) any { return momentum.NewStochasticRsiWithPeriod[float64](cfg[0]) },
		Idle: func(inst any, cfg []int) int { return inst.(*momentum.StochasticRsi[float64]).IdlePeriod() },
		Run: func(inst any, in []<-chan float64) []<-chan float64 {
			return one(inst.(*momentum.StochasticRsi[float64]).Compute(in[0]))
		},
		Ref: func(cfg []int, in [][]float64, o, i int) float64 {
			rsi := mvRsiSeries(in[0], cfg[0], i)
			lo, hi := rMin(rsi, cfg[0], i), rMax(rsi, cfg[0], i)
			return (rsi[i] - lo) / (hi - lo)
		},
		Deg: [][2]int{{0, 0}},
		Lo:  []float64{0}, Hi: []float64{1}, HasRange: []bool{true},
	})

	// WilliamsR(P): WR = (Highest High - Closing) / (Highest High - Lowest Low) * -100.
	reg(&Ind{
		Name: "WilliamsR", In: "hlc", NOut: 1,
		Make: func(cfg []int) any {
			x := momentum.NewWilliamsR[float64]()
			x.Max.Period = cfg[0]
			x.Min.Period = cfg[0]
			return x
		},
		Idle: func(inst any, cfg []int) int { return inst.(*momentum.WilliamsR[float64]).IdlePeriod() },
		Run: func(inst any, in []<-chan float64) []<-chan float64 {
			return one(inst.(*momentum.WilliamsR[float64]).Compute(in[0], in[1], in[2]))
		},
		Ref: func(cfg []int, in [][]float64, o, i int) float64 {
			h, l, c := in[0], in[1], in[2]
			hi, lo := rMax(h, cfg[0], i), rMin(l, cfg[0], i)
			return (hi - c[i]) / (hi - lo) * -100
		},
		Deg: [][2]int{{0, 0}},
		Lo:  []float64{-100}, Hi: []float64{0}, HasRange: []bool{true},
	})

	// -------------------------------------------------------------------- volume

	reg(&Ind{
		Name: "Mfm", In: "hlc", NOut: 1,
		Make: func(cfg []int) any { return volume.NewMfm[float64]() },
		Idle: func(inst any, cfg []int) int { return inst.(*volume.Mfm[float64]).IdlePeriod() },
		Run: func(inst any, in []<-chan float64) []<-chan float64 {
			return one(inst.(*volume.Mfm[float64]).Compute(in[0], in[1], in[2]))
		},
		Ref: func(cfg []int, in [][]float64, o, i int) float64 { return mvMfm(in[0], in[1], in[2], i) },
		Deg: [][2]int{{0, 0}},
		Lo:  []float64{-1}, Hi: []float64{1}, HasRange: []bool{true},
	})

	reg(&Ind{
		Name: "Mfv", In: "hlcv", NOut: 1,
		Make: func(cfg []int) any { return volume.NewMfv[float64]() },
		Idle: func(inst any, cfg []int) int { return inst.(*volume.Mfv[float64]).IdlePeriod() },
		Run: func(inst any, in []<-chan float64) []<-chan float64 {
			return one(inst.(*volume.Mfv[float64]).Compute(in[0], in[1], in[2], in[3]))
		},
		Ref: func(cfg []int, in [][]float64, o, i int) float64 { return mvMfv(in[0], in[1], in[2], in[3], i) },
		Deg: [][2]int{{0, 1}},
	})

	// Ad: AD = Previous AD + MFV (running sum from 0).
	reg(&Ind{
		Name: "Ad", In: "hlcv", NOut: 1,
		Make: func(cfg []int) any { return volume.NewAd[float64]() },
		Idle: func(inst any, cfg []int) int { return inst.(*volume.Ad[float64]).IdlePeriod() },
		Run: func(inst any, in []<-chan float64) []<-chan float64 {
			return one(inst.(*volume.Ad[float64]).Compute(in[0], in[1], in[2], in[3]))
		},
		Ref: func(cfg []int, in [][]float64, o, i int) float64 {
			return mvAdSeries(in[0], in[1], in[2], in[3], i)[i]
		},
		Deg: [][2]int{{0, 1}},
	})

	// Cmf(P): Sum_P(MFV) / Sum_P(Volume).
	reg(&Ind{
		Name: "Cmf", In: "hlcv", NOut: 1,
		Make: func(cfg []int) any { return volume.NewCmfWithPeriod[float64](cfg[0]) },
		Idle: func(inst any, cfg []int) int { return inst.(*volume.Cmf[float64]).IdlePeriod() },
		Run: func(inst any, in []<-chan float64) []<-chan float64 {
			return one(inst.(*volume.Cmf[float64]).Compute(in[0], in[1], in[2], in[3]))
		},
		Ref: func(cfg []int, in [][]float64, o, i int) float64 {
			h, l, c, v := in[0], in[1], in[2], in[3]
			mfv := rMapIdx(i+1, i-cfg[0]+1, func(j int) float64 { return mvMfv(h, l, c, v, j) })
			return rSum(mfv, cfg[0], i) / rSum(v, cfg[0], i)
		},
		Deg: [][2]int{{0, 0}},
		Lo:  []float64{-1}, Hi: []float64{1}, HasRange: []bool{true},
	})

	// Emv(P): DM_j = (h_j+l_j)/2 - (h_{j-1}+l_{j-1})/2 ; BR_j = (v_j/1e8)/(h_j-l_j) ;
	// EMV = SMA_P(DM_j / BR_j), all three at the same position j >= 1.
	reg(&Ind{
		Name: "Emv", In: "hlv", NOut: 1,
		Make: func(cfg []int) any { return volume.NewEmvWithPeriod[float64](cfg[0]) },
		Idle: func(inst any, cfg []int) int { return inst.(*volume.Emv[float64]).IdlePeriod() },
		Run: func(inst any, in []<-chan float64) []<-chan float64 {
			return one(inst.(*volume.Emv[float64]).Compute(in[0], in[1], in[2]))
		},
		Ref: func(cfg []int, in [][]float64, o, i int) float64 {
			h, l, v := in[0], in[1], in[2]
			e1 := rMapIdx(i+1, i-cfg[0]+1, func(j int) float64 {
				dm := ((h[j] + l[j]) / 2) - ((h[j-1] + l[j-1]) / 2)
				br := (v[j] / 100000000) / (h[j] - l[j])
				return dm / br
			})
			return rSMA(e1, cfg[0], i)
		},
		Deg: [][2]int{{2, -1}},
		// Code: Divide(Change(median,1), boxRatio) zips DM_{j+1} with BR_j (boxRatio is not
		// skipped by 1): every value is wrong.
		KF: mvAlways("KF-C01-emv-box-ratio-misaligned"),
	})

	// Fi(P): FI = EMA_P((Current - Previous) * Volume), product at the position of "Current".
	reg(&Ind{
		Name: "Fi", In: "cv", NOut: 1,
		Make: func(cfg []int) any { return volume.NewFiWithPeriod[float64](cfg[0]) },
		Idle: func(inst any, cfg []int) int { return inst.(*volume.Fi[float64]).IdlePeriod() },
		Run: func(inst any, in []<-chan float64) []<-chan float64 {
			return one(inst.(*volume.Fi[float64]).Compute(in[0], in[1]))
		},
		Ref: func(cfg []int, in [][]float64, o, i int) float64 {
			c, v := in[0], in[1]
			f := rMapIdx(i+1, 1, func(j int) float64 { return (c[j] - c[j-1]) * v[j] })
			return rEMA(rTail(f, 1), cfg[0])[i-1]
		},
		Deg: [][2]int{{1, 1}},
		// Code: Multiply(Change(closings,1), volumes) zips (c_{j+1}-c_j) with v_j.
		KF: mvAlways("KF-C01-fi-volume-misaligned"),
		KFLen: func(cfg []int, n int) string {
			if n-1 < cfg[0] { // inherited from Ema: fewer than Period changes
				return "KF-C02-ema-spurious-zero"
			}
			return ""
		},
	})

	// Mfi(P): Raw Money Flow = Typical Price * Volume; a flow is positive (negative) when
	// the raw money flow rose (fell) against the previous position (Appendix A's reading:
	// "flows signed by the change of tp*v"; the doc comment does not say what signs them);
	// Money Ratio = Sum_P(positive) / Sum_P(negative); MFI = 100 - 100/(1+ratio).
	reg(&Ind{
		Name: "Mfi", In: "hlcv", NOut: 1,
		Make: func(cfg []int) any {
			m := volume.NewMfi[float64]()
			m.Sum = trend.NewMovingSumWithPeriod[float64](cfg[0])
			return m
		},
		Idle: func(inst any, cfg []int) int { return inst.(*volume.Mfi[float64]).IdlePeriod() },
		Run: func(inst any, in []<-chan float64) []<-chan float64 {
			return one(inst.(*volume.Mfi[float64]).Compute(in[0], in[1], in[2], in[3]))
		},
		Ref: func(cfg []int, in [][]float64, o, i int) float64 {
			h, l, c, v := in[0], in[1], in[2], in[3]
			raw := func(j int) float64 { return mvTypical(h, l, c, j) * v[j] }
			pos, neg := 0.0, 0.0
			for j := i - cfg[0] + 1; j <= i; j++ {
				a, b := raw(j), raw(j-1)
				flow := 0.0 // signed money flow: +raw when the raw flow rose, -raw when it fell
				if a > b {
					flow = a
				} else if a < b {
					flow = -a
				}
				if flow > 0 {
					pos += flow
				} else if flow < 0 {
					neg += -flow
				}
			}
			return 100 - (100 / (1 + pos/neg))
		},
		Deg: [][2]int{{0, 0}},
		Lo:  []float64{0}, Hi: []float64{100}, HasRange: []bool{true},
	})

	// Nvi (Initial = default 1000): NVI_0 = Initial; for i >= 1
	//   Volume_i > Volume_{i-1}: NVI_i = NVI_{i-1}
	//   otherwise: NVI_i = NVI_{i-1} + ((c_i - c_{i-1}) / c_{i-1}) * NVI_{i-1}
	reg(&Ind{
		Name: "Nvi", In: "cv", NOut: 1,
		Make: func(cfg []int) any { return volume.NewNvi[float64]() },
		Idle: func(inst any, cfg []int) int { return inst.(*volume.Nvi[float64]).IdlePeriod() },
		Run: func(inst any, in []<-chan float64) []<-chan float64 {
			return one(inst.(*volume.Nvi[float64]).Compute(in[0], in[1]))
		},
		Ref: func(cfg []int, in [][]float64, o, i int) float64 {
			c, v := in[0], in[1]
			nvi := float64(volume.DefaultNviInitial)
			for j := 1; j <= i; j++ {
				if v[j] > v[j-1] {
					continue
				}
				nvi = nvi + (((c[j] - c[j-1]) / c[j-1]) * nvi)
			}
			return nvi
		},
		Deg: [][2]int{{0, 0}},
	})

	// Obv: OBV_i = OBV_{i-1} +/- Volume_i by Closing_i vs Closing_{i-1}. Position 0 has no
	// previous closing: the recursion starts from OBV_0 = 0.
	reg(&Ind{
		Name: "Obv", In: "cv", NOut: 1,
		Make: func(cfg []int) any { return volume.NewObv[float64]() },
		Idle: func(inst any, cfg []int) int { return inst.(*volume.Obv[float64]).IdlePeriod() },
		Run: func(inst any, in []<-chan float64) []<-chan float64 {
			return one(inst.(*volume.Obv[float64]).Compute(in[0], in[1]))
		},
		Ref: func(cfg []int, in [][]float64, o, i int) float64 {
			c, v := in[0], in[1]
			obv := 0.0
			for j := 1; j <= i; j++ {
				if c[j] > c[j-1] {
					obv += v[j]
				} else if c[j] < c[j-1] {
					obv -= v[j]
				}
			}
			return obv
		},
		Deg: [][2]int{{0, 1}},
		// Code keeps ONE variable `previous` (the previous OBV) and compares the closing
		// with it: closing_i > OBV_{i-1} instead of closing_i > closing_{i-1}.
		KF: mvAlways("KF-C01-obv-compares-obv"),
		// comparing a price with a cumulative volume is not unit independent
		KF18: mvAlways("KF-C18-obv-compares-obv"),
	})

	// Vpt: VPT_i = VPT_{i-1} + Volume_i * (c_i - c_{i-1}) / c_{i-1}, VPT_0 = 0.
	reg(&Ind{
		Name: "Vpt", In: "cv", NOut: 1,
		Make: func(cfg []int) any { return volume.NewVpt[float64]() },
		Idle: func(inst any, cfg []int) int { return inst.(*volume.Vpt[float64]).IdlePeriod() },
		Run: func(inst any, in []<-chan float64) []<-chan float64 {
			return one(inst.(*volume.Vpt[float64]).Compute(in[0], in[1]))
		},
		Ref: func(cfg []int, in [][]float64, o, i int) float64 {
			c, v := in[0], in[1]
			vpt := 0.0
			for j := 1; j <= i; j++ {
				vpt = vpt + v[j]*((c[j]-c[j-1])/c[j-1])
			}
			return vpt
		},
		Deg: [][2]int{{0, 1}},
	})

	// Vwap(P): Sum_P(Closing*Volume) / Sum_P(Volume).
	reg(&Ind{
		Name: "Vwap", In: "cv", NOut: 1,
		Make: func(cfg []int) any { return volume.NewVwapWithPeriod[float64](cfg[0]) },
		Idle: func(inst any, cfg []int) int { return inst.(*volume.Vwap[float64]).IdlePeriod() },
		Run: func(inst any, in []<-chan float64) []<-chan float64 {
			return one(inst.(*volume.Vwap[float64]).Compute(in[0], in[1]))
		},
		Ref: func(cfg []int, in [][]float64, o, i int) float64 {
			c, v := in[0], in[1]
			cv := rMapIdx(i+1, i-cfg[0]+1, func(j int) float64 { return c[j] * v[j] })
			return rSum(cv, cfg[0], i) / rSum(v, cfg[0], i)
		},
		Deg: [][2]int{{1, 0}},
	})
}
