package h

import (
	"github.com/cinar/indicator/v2/trend"
	"github.com/cinar/indicator/v2/volatility"
)

// Worked table entries. Conventions:
//   * Make uses only exported constructors/fields of the real library.
//   * Ref restates the DOC COMMENT of the type (not the implementation), with
//     the alignment "output k refers to input position k + warm-up".
//   * Ref only touches positions it needs (so that no spurious division side
//     conditions are generated for unused positions).

func init() {
	reg(&Ind{
		Name: "Sma", In: "x", NOut: 1,
		Make: func(cfg []int) any { return trend.NewSmaWithPeriod[float64](cfg[0]) },
		Idle: func(inst any, cfg []int) int { return inst.(*trend.Sma[float64]).IdlePeriod() },
		Run: func(inst any, in []<-chan float64) []<-chan float64 {
			return one(inst.(*trend.Sma[float64]).Compute(in[0]))
		},
		Ref: func(cfg []int, in [][]float64, o, i int) float64 { return rSMA(in[0], cfg[0], i) },
		Deg: [][2]int{{1, 0}},
	})
	reg(&Ind{
		Name: "Ema", In: "x", NOut: 1,
		Make: func(cfg []int) any { return trend.NewEmaWithPeriod[float64](cfg[0]) },
		Idle: func(inst any, cfg []int) int { return inst.(*trend.Ema[float64]).IdlePeriod() },
		Run: func(inst any, in []<-chan float64) []<-chan float64 {
			return one(inst.(*trend.Ema[float64]).Compute(in[0]))
		},
		Ref: func(cfg []int, in [][]float64, o, i int) float64 { return rEMA(in[0], cfg[0])[i] },
		Deg: [][2]int{{1, 0}},
	})
	// Macd(P1,P2,P3): macd = EMA_P1 - EMA_P2 ; signal = EMA_P3(macd). Two outputs.
	reg(&Ind{
		Name: "Macd", In: "c", NOut: 2,
		Make: func(cfg []int) any { return trend.NewMacdWithPeriod[float64](cfg[0], cfg[1], cfg[2]) },
		Idle: func(inst any, cfg []int) int { return inst.(*trend.Macd[float64]).IdlePeriod() },
		Run: func(inst any, in []<-chan float64) []<-chan float64 {
			a, b := inst.(*trend.Macd[float64]).Compute(in[0])
			return []<-chan float64{a, b}
		},
		Ref: func(cfg []int, in [][]float64, o, i int) float64 {
			c := in[0]
			e1, e2 := rEMA(c, cfg[0]), rEMA(c, cfg[1])
			from := cfg[1] - 1 // first position where both EMAs exist
			macd := rMapIdx(len(c), from, func(j int) float64 { return e1[j] - e2[j] })
			if o == 0 {
				return macd[i]
			}
			return rEMA(rTail(macd, from), cfg[2])[i-from]
		},
		Deg: [][2]int{{1, 0}, {1, 0}},
	})
	// Atr(SMA period P): inputs h,l,c ; TR_i = max(h_i-l_i, h_i-c_{i-1}, c_{i-1}-l_i) (doc), ATR = SMA_P(TR)
	reg(&Ind{
		Name: "Atr", In: "hlc", NOut: 1,
		Make: func(cfg []int) any { return volatility.NewAtrWithPeriod[float64](cfg[0]) },
		Idle: func(inst any, cfg []int) int { return inst.(*volatility.Atr[float64]).IdlePeriod() },
		Run: func(inst any, in []<-chan float64) []<-chan float64 {
			return one(inst.(*volatility.Atr[float64]).Compute(in[0], in[1], in[2]))
		},
		Ref: func(cfg []int, in [][]float64, o, i int) float64 {
			h, l, c := in[0], in[1], in[2]
			tr := rMapIdx(len(c), 1, func(j int) float64 {
				return rMax2(h[j]-l[j], rMax2(h[j]-c[j-1], c[j-1]-l[j]))
			})
			return rSMA(tr, cfg[0], i)
		},
		Deg:    [][2]int{{1, 0}},
		NonNeg: []bool{true},
	})
}
