package h

import (
	"encoding/csv"
	"encoding/json"
	"errors"
	"io"
	"log/slog"
	"net/http"
	"net/http/httptest"
	"os"
	"path/filepath"
	"strings"

	"github.com/cinar/indicator/v2/asset"
	"github.com/cinar/indicator/v2/helper"
	"verif/harness/vrt"
)

// C19 (reduced scope): the repository's own control flow and index arithmetic in
// the CSV and JSON stream readers, over NONDETERMINISTIC STUBS of the std parsers
// in the symbolic run (encoding/csv.Reader.Read, encoding/json.Decoder.Token /
// More / Decode: every outcome sequence of a plan is explored by forking) and
// over the REAL parsers in the native replay, fed with text built from the same
// plan. Byte-level parsing itself is outside the claim.

type row1 struct {
	A string
}
type row2 struct {
	A string
	N int
}
type row3 struct {
	A string
	N int
	B string `header:"Bee"`
}

// csvPlan: the records the parser will produce: fields per record, or an error.
type csvEvent struct {
	fields []string // nil = read error (bad quoting natively)
}

func csvText(header []string, evs []csvEvent) string {
	sb := ""
	if header != nil {
		sb += strings.Join(header, ",") + "\n"
	}
	for _, e := range evs {
		if e.fields == nil {
			sb += "x\"y,z\n" // bare quote: a parse error of encoding/csv
			continue
		}
		sb += strings.Join(e.fields, ",") + "\n"
	}
	return sb
}

// installCsvStubs replaces the std CSV reader by the plan (symbolic run only).
func installCsvStubs(header []string, evs []csvEvent) {
	pos := -1
	if header == nil {
		pos = 0
	}
	vrt.Stub("encoding/csv.NewReader", func(r io.Reader) *csv.Reader { return new(csv.Reader) })
	// encoding/csv's documented field-count contract: FieldsPerRecord > 0 requires
	// that many fields per record, 0 takes the first record's count, < 0 checks nothing;
	// a record of another width is returned together with ErrFieldCount.
	checkWidth := func(r *csv.Reader, rec []string) ([]string, error) {
		if r.FieldsPerRecord == 0 {
			r.FieldsPerRecord = len(rec)
		}
		if r.FieldsPerRecord > 0 && len(rec) != r.FieldsPerRecord {
			return rec, errors.New("record on line: wrong number of fields")
		}
		return rec, nil
	}
	vrt.Stub("(*encoding/csv.Reader).Read", func(r *csv.Reader) ([]string, error) {
		if pos == -1 {
			pos = 0
			return checkWidth(r, append([]string(nil), header...))
		}
		if pos >= len(evs) {
			return nil, io.EOF
		}
		e := evs[pos]
		pos++
		if e.fields == nil {
			return nil, errors.New("parse error")
		}
		return checkWidth(r, append([]string(nil), e.fields...))
	})
	// value conversion: "bad" does not convert (an int column natively), everything else does
	vrt.Stub("github.com/cinar/indicator/v2/helper.setReflectValue", func(v any, s string, format string) error {
		if s == "bad" {
			return errors.New("conversion error")
		}
		return nil
	})
}

// runCsv reads the plan through the real helper.Csv[T] and returns the number of rows delivered.
func runCsv[T any](hasHeader bool, text string) int {
	c, err := helper.NewCsv[T](hasHeader)
	vrt.Assert("newcsv_ok", err == nil)
	n := 0
	for range c.ReadFromReader(strings.NewReader(text)) {
		n++
	}
	return n
}

// H_C19_Csv: shape = number of struct fields (1..3); hdr: 0 no header row, 1 header in
// field order, 2 header with the last column missing, 3 header permuted with an
// extra column; nrec records of nf fields each (nf may be smaller or larger than
// the struct); the kind of every record is a nondeterministic stub outcome
// (symbolic, explored by forking): 0 good record, 1 record with an unconvertible
// value in the int column, 2 parse error, 3 truncated record (fewer fields than the
// first record; how many is another outcome), 4 record with one field too many.
func H_C19_Csv(shape, hdr, nrec, nf int) {
	names := [][]string{nil, {"A"}, {"A", "N"}, {"A", "N", "Bee"}}[shape]
	var header []string
	switch hdr {
	case 1:
		header = append([]string(nil), names...)
	case 2:
		header = append([]string(nil), names[:len(names)-1]...)
		if len(header) == 0 {
			header = []string{"Zed"}
		}
	case 3:
		header = []string{"Extra"}
		for i := len(names) - 1; i >= 0; i-- {
			header = append(header, names[i])
		}
	}
	width := nf
	if header != nil {
		width = len(header) // encoding/csv: every record has the first record's field count
	}
	intCol := -1 // column index holding the int field N
	if shape >= 2 {
		if header == nil {
			intCol = 1
		} else {
			for i, h := range header {
				if h == "N" {
					intCol = i
				}
			}
		}
	}
	var evs []csvEvent
	good := 0
	stopped := false
	for r := 0; r < nrec; r++ {
		kind := vrt.Choice("kind", 5, r)
		if kind == 2 {
			evs = append(evs, csvEvent{})
			stopped = true
			continue
		}
		if kind >= 3 {
			// wrong field count; the first record of a header-less file DEFINES the count
			vrt.Assume(header != nil || r > 0)
			w := width + 1
			if kind == 3 {
				vrt.Assume(width >= 2)
				w = 1 + vrt.Choice("tw", width-1, r) // 1..width-1 fields (an empty line is skipped by the parser)
			}
			f := make([]string, w)
			for i := range f {
				f[i] = "7"
			}
			evs = append(evs, csvEvent{fields: f})
			stopped = true
			continue
		}
		f := make([]string, width)
		for i := range f {
			f[i] = "7"
		}
		if kind == 1 && intCol >= 0 && intCol < width {
			f[intCol] = "bad"
			evs = append(evs, csvEvent{fields: f})
			stopped = true
			continue
		}
		evs = append(evs, csvEvent{fields: f})
		if !stopped {
			good++
		}
	}
	if header == nil && width < shape {
		// a header-less file whose records are narrower than the row struct: every
		// record is malformed, nothing may be delivered (and nothing may panic)
		good = 0
	}
	installCsvStubs(header, evs)
	text := csvText(header, evs)
	var got int
	switch shape {
	case 1:
		got = runCsv[row1](header != nil, text)
	case 2:
		got = runCsv[row2](header != nil, text)
	default:
		got = runCsv[row3](header != nil, text)
	}
	// the rows of the well-formed prefix, and nothing after the first bad record
	vrt.Assert("rows_are_the_wellformed_prefix", got == good)
	vrt.Reach("end")
}

// ---- JSON ----

type jsonPlan struct {
	open   int // 0 '[' ; 1 another delimiter ; 2 error ; 3 a scalar token (string) that is the whole document
	values []bool
	close  int // 0 ']' ; 1 another token ; 2 error (truncated)
}

func jsonText(p jsonPlan) string {
	sb := ""
	switch p.open {
	case 0:
		sb += "["
	case 1:
		sb += "{"
	case 3:
		return "\"Not found.\"" // a top-level scalar: the whole document
	default:
		sb += "@"
	}
	for i, ok := range p.values {
		if i > 0 {
			sb += ","
		}
		if ok {
			sb += "5"
		} else {
			sb += "\"str\"" // a string where an int is expected: Decode error
		}
	}
	switch p.close {
	case 0:
		sb += "]"
	case 1:
		sb += "}"
	}
	return sb
}

func installJSONStubs(p jsonPlan) {
	pos := 0
	vrt.Stub("encoding/json.NewDecoder", func(r io.Reader) *json.Decoder { return new(json.Decoder) })
	opened := false
	vrt.Stub("(*encoding/json.Decoder).Token", func(d *json.Decoder) (json.Token, error) {
		if !opened {
			opened = true
			switch p.open {
			case 0:
				return json.Delim('['), nil
			case 1:
				return json.Delim('{'), nil
			case 3:
				return "Not found.", nil
			}
			return nil, errors.New("invalid character")
		}
		if p.open == 3 {
			return nil, io.EOF
		}
		switch p.close {
		case 0:
			return json.Delim(']'), nil
		case 1:
			return nil, errors.New("invalid character '}' after array element")
		}
		return nil, io.EOF
	})
	vrt.Stub("(*encoding/json.Decoder).More", func(d *json.Decoder) bool { return p.open != 3 && pos < len(p.values) })
	vrt.Stub("(*encoding/json.Decoder).Decode", func(d *json.Decoder, v any) error {
		ok := p.values[pos]
		pos++
		if !ok {
			return errors.New("cannot unmarshal string into Go value of type int")
		}
		*(v.(*int)) = 5
		return nil
	})
}

// H_C19_Json: nvals values; the kind of the opening token (0 '[', 1 other, 2 error),
// whether each value decodes, and the kind of the closing token (0 ']', 1 other,
// 2 truncated) are nondeterministic stub outcomes (symbolic, explored by forking).
func H_C19_Json(nvals int) {
	p := jsonPlan{open: vrt.Choice("open", 4), close: vrt.Choice("close", 3)}
	good := 0
	stopped := p.open != 0
	for i := 0; i < nvals; i++ {
		ok := vrt.Choice("ok", 2, i) == 1
		p.values = append(p.values, ok)
		if !ok {
			stopped = true
		}
		if !stopped {
			good++
		}
	}
	installJSONStubs(p)
	n := 0
	for v := range helper.JSONToChanWithLogger[int](strings.NewReader(jsonText(p)), slog.Default()) {
		vrt.AssertAt("value", n, v == 5)
		n++
	}
	vrt.Assert("values_are_the_wellformed_prefix", n == good)
	vrt.Reach("end")
}

// ---- Tiingo repository over a stubbed HTTP client / JSON decoder ----

type fakeBody struct{ closed *bool }

func (b fakeBody) Read(p []byte) (int, error) { return 0, io.EOF }
func (b fakeBody) Close() error               { *b.closed = true; return nil }

// H_C19_Tiingo: GetSince against an HTTP endpoint whose behaviour is a
// nondeterministic stub outcome: transport (0 ok, 1 failure), ANY status code in
// 200..599 (a symbolic integer), then a JSON body of nvals records each of which decodes or
// not, with an arbitrary opening / closing token outcome.
func H_C19_Tiingo(nvals int) {
	transport := vrt.Choice("transport", 2)
	code := vrt.Int("code")
	vrt.Assume(code >= 200)
	vrt.Assume(code <= 599)
	p := jsonPlan{open: vrt.Choice("open", 4), close: vrt.Choice("close", 3)}
	good := 0
	stopped := p.open >= 2 // GetSince only needs the first token to be readable; a scalar is the whole document
	for i := 0; i < nvals; i++ {
		ok := vrt.Choice("ok", 2, i) == 1
		p.values = append(p.values, ok)
		if !ok {
			stopped = true
		}
		if !stopped {
			good++
		}
	}
	repo := asset.NewTiingoRepository("key")
	closed := false
	if vrt.Symbolic() {
		pos := 0
		opened := false
		vrt.Stub("net/http.NewRequest", func(method, url string, body any) (*http.Request, error) { return new(http.Request), nil })
		vrt.Stub("(*net/http.Client).Do", func(c *http.Client, req *http.Request) (*http.Response, error) {
			if transport == 1 {
				return nil, errors.New("connection refused")
			}
			return &http.Response{StatusCode: code, Status: "status", Body: fakeBody{&closed}}, nil
		})
		vrt.Stub("encoding/json.NewDecoder", func(r io.Reader) *json.Decoder { return new(json.Decoder) })
		vrt.Stub("(*encoding/json.Decoder).Token", func(d *json.Decoder) (json.Token, error) {
			if !opened {
				opened = true
				if p.open == 2 {
					return nil, errors.New("invalid character")
				}
				if p.open == 3 {
					return "Not found.", nil
				}
				return json.Delim('['), nil
			}
			if p.open == 3 {
				return nil, io.EOF
			}
			if p.close == 0 {
				return json.Delim(']'), nil
			}
			return nil, io.EOF
		})
		vrt.Stub("(*encoding/json.Decoder).More", func(d *json.Decoder) bool { return p.open != 3 && pos < len(p.values) })
		vrt.Stub("(*encoding/json.Decoder).Decode", func(d *json.Decoder, v any) error {
			ok := p.values[pos]
			pos++
			if !ok {
				return errors.New("cannot unmarshal")
			}
			v.(*asset.TiingoEndOfDay).AdjClose = 5
			return nil
		})
	} else {
		// native replay: a real HTTP server that plays the plan
		body := ""
		switch p.open {
		case 0:
			body = "["
		case 1:
			body = "{"
		default:
			body = "@"
		}
		for i, ok := range p.values {
			if i > 0 {
				body += ","
			}
			if ok {
				body += "{\"adjClose\": 5}"
			} else {
				body += "{\"adjClose\": \"x\"}"
			}
		}
		if p.close == 0 {
			body += "]"
		}
		if p.open == 3 {
			body = "\"Not found.\""
		}
		srv := httptest.NewServer(http.HandlerFunc(func(w http.ResponseWriter, r *http.Request) {
			w.WriteHeader(code)
			_, _ = w.Write([]byte(body))
		}))
		defer srv.Close()
		repo.BaseURL = srv.URL
		if transport == 1 {
			repo.BaseURL = "http://127.0.0.1:1" // nothing listens there
		}
	}
	c, err := repo.GetSince("aapl", vrt.Day(100))
	if transport == 1 {
		vrt.Assert("transport_failure_is_an_error", err != nil)
	} else if code < 200 || code > 299 {
		vrt.Assert("non_success_status_is_an_error", err != nil)
	} else if code != 200 && err != nil {
		// another 2xx status treated as a failure: stricter than required
	} else {
		vrt.Assert("ok_no_error", err == nil)
		n := 0
		if err == nil {
			for s := range c {
				vrt.AssertEqAt("value", n, s.Close, 5.0)
				n++
			}
		}
		if p.open != 1 { // an object instead of an array: what Decode makes of it is the parser's business
			vrt.Assert("records_are_the_wellformed_prefix", n == good)
		}
	}
	vrt.Reach("end")
}

// H_C19_ReadFromFile: an unreadable file surfaces as an error.
func H_C19_ReadFromFile() {
	vrt.Stub("os.Open", func(name string) (*os.File, error) { return nil, errors.New("open: no such file") })
	c, err := helper.NewCsv[row1](true)
	vrt.Assert("newcsv_ok", err == nil)
	_, err = c.ReadFromFile(vrt.TempDir() + "/does-not-exist.csv")
	vrt.Assert("unreadable_file_is_an_error", err != nil)
	vrt.Reach("end")
}

// csvFile puts a CSV document (records of fields) where the real reader will find it:
// in the virtual file system (symbolic run) or in a real temporary file (native run).
func csvFile(dir, name string, records [][]string) string {
	path := filepath.Join(dir, name)
	if vrt.Symbolic() {
		f := theVFS.create(path)
		for _, r := range records {
			f.records = append(f.records, append([]string(nil), r...))
		}
		return path
	}
	sb := ""
	for _, r := range records {
		sb += strings.Join(r, ",") + "\n"
	}
	_ = os.WriteFile(path, []byte(sb), 0o600)
	return path
}

func readRows(c *helper.Csv[row3], path string) []row3 {
	ch, err := c.ReadFromFile(path)
	vrt.Assert("open_ok", err == nil)
	var out []row3
	if err == nil {
		for r := range ch {
			out = append(out, *r)
		}
	}
	return out
}

// H_C09_Csv: one helper.Csv value reads two documents with DIFFERENT header rows, one
// after the other; the second read must give what a fresh value gives (the column
// mapping derived from the first header must not leak into the second read).
// variant: 0 = the second header lacks a column, 1 = it is permuted, 2 = it has an
// extra leading column, 3 = the first header lacks a column the second one has.
func H_C09_Csv(variant int) {
	theVFS = &vfsT{files: map[string]*vfile{}}
	installOSStubs(theVFS)
	dir := vrt.TempDir()
	first := [][]string{{"A", "N", "Bee"}, {"a1", "5", "b1"}}
	var second [][]string
	switch variant {
	case 0:
		second = [][]string{{"A", "Bee"}, {"a2", "b2"}, {"a3", "b3"}}
	case 1:
		second = [][]string{{"Bee", "N", "A"}, {"b2", "6", "a2"}}
	case 2:
		second = [][]string{{"X", "A", "N", "Bee"}, {"x", "a2", "6", "b2"}}
	default:
		first = [][]string{{"A", "Bee"}, {"a1", "b1"}}
		second = [][]string{{"N", "A", "Bee"}, {"6", "a2", "b2"}}
	}
	p1, p2 := csvFile(dir, "one.csv", first), csvFile(dir, "two.csv", second)
	shared, err := helper.NewCsv[row3](true)
	vrt.Assert("newcsv_ok", err == nil)
	_ = readRows(shared, p1)
	again := readRows(shared, p2)
	fresh, err := helper.NewCsv[row3](true)
	vrt.Assert("newcsv_ok", err == nil)
	want := readRows(fresh, p2)
	vrt.Assert("reuse_len", len(again) == len(want))
	vrt.Assert("fresh_reads_all", len(want) == len(second)-1)
	for i := range want {
		if i < len(again) {
			vrt.AssertAt("reuse_A", i, again[i].A == want[i].A)
			vrt.AssertAt("reuse_N", i, again[i].N == want[i].N)
			vrt.AssertAt("reuse_B", i, again[i].B == want[i].B)
		}
	}
	vrt.Reach("end")
}

type jrow struct {
	A int
	B int
}

// H_C19_JsonStruct: a well-formed array of objects in which an element may omit a
// key: every delivered record is the decoding of ITS element alone (an omitted key
// gives the zero value, nothing carries over from the element before).
func H_C19_JsonStruct(n int) {
	hasB := make([]bool, n)
	for i := range hasB {
		hasB[i] = vrt.Choice("hasb", 2, i) == 1
	}
	text := "["
	for i := range hasB {
		if i > 0 {
			text += ","
		}
		if hasB[i] {
			text += "{\"A\":" + string(rune('1'+i)) + ",\"B\":7}"
		} else {
			text += "{\"A\":" + string(rune('1'+i)) + "}"
		}
	}
	text += "]"
	if vrt.Symbolic() {
		pos, opened := 0, false
		vrt.Stub("encoding/json.NewDecoder", func(r io.Reader) *json.Decoder { return new(json.Decoder) })
		vrt.Stub("(*encoding/json.Decoder).Token", func(d *json.Decoder) (json.Token, error) {
			if !opened {
				opened = true
				return json.Delim('['), nil
			}
			return json.Delim(']'), nil
		})
		vrt.Stub("(*encoding/json.Decoder).More", func(d *json.Decoder) bool { return pos < n })
		// encoding/json's documented contract: keys present in the element are stored,
		// fields whose keys are absent are left as they are
		vrt.Stub("(*encoding/json.Decoder).Decode", func(d *json.Decoder, v any) error {
			r := v.(*jrow)
			r.A = pos + 1
			if hasB[pos] {
				r.B = 7
			}
			pos++
			return nil
		})
	}
	k := 0
	for r := range helper.JSONToChanWithLogger[jrow](strings.NewReader(text), slog.Default()) {
		if k < n {
			vrt.AssertAt("field_A", k, r.A == k+1)
			want := 0
			if hasB[k] {
				want = 7
			}
			vrt.AssertAt("field_B_of_its_own_element", k, r.B == want)
		}
		k++
	}
	vrt.Assert("all_delivered", k == n)
	vrt.Reach("end")
}
