package h

import (
	"github.com/cinar/indicator/v2/asset"
	"github.com/cinar/indicator/v2/backtest"
	"github.com/cinar/indicator/v2/helper"
	"github.com/cinar/indicator/v2/strategy"
	"verif/harness/vrt"
)

// ---- 1. rankings of the HTML report ----

func stubHTMLIO() {
	// file output and HTML rendering are outside the claim (symbolic run only)
	vrt.Stub("(*github.com/cinar/indicator/v2/backtest.HTMLReport).writeAssetReport", func(h *backtest.HTMLReport, name string, results any) error { return nil })
	vrt.Stub("(*github.com/cinar/indicator/v2/backtest.HTMLReport).writeReport", func(h *backtest.HTMLReport) error { return nil })
	vrt.Stub("os.MkdirAll", func(path string, perm any) error { return nil })
}

func outcomeOf(r any) float64 { return vrt.GetField(r, "Outcome").(float64) }

// H_C13_Rank: nAssets assets with k results each, arbitrary (symbolic) final
// outcomes, through Begin / AssetBegin / Write / AssetEnd / End of the real HTML
// report: the entry recorded as best for an asset has the maximal outcome of
// that asset, and the overall list is in non-increasing outcome order.
func H_C13_Rank(nAssets, k int) {
	stubHTMLIO()
	h := backtest.NewHTMLReport(vrt.TempDir())
	h.WriteStrategyReports = false
	names := []string{"a0", "a1", "a2", "a3"}[:nAssets]
	strategies := make([]strategy.Strategy, k)
	for j := range strategies {
		strategies[j] = &stubStrategy{name: vrt.Name("s", j)}
	}
	vrt.Assert("begin_ok", h.Begin(names, strategies) == nil)
	for ai, name := range names {
		vrt.Assert("assetbegin_ok", h.AssetBegin(name, strategies) == nil)
		outs := make([]float64, k)
		for j := range strategies {
			o := vrt.Float64(vrt.Name("o", ai), j)
			vrt.Assume(o >= -1 && o <= 1000)
			outs[j] = o
			err := h.Write(name, strategies[j], Src([]*asset.Snapshot{}, 0), Src([]strategy.Action{strategy.Hold}, 0), Src([]float64{o}, 0))
			vrt.Assert("write_ok", err == nil)
		}
		vrt.Assert("assetend_ok", h.AssetEnd(name) == nil)
		best := vrt.GetField(h, "bestResults")
		vrt.AssertAt("best_recorded", ai, vrt.Len(best) == ai+1)
		if vrt.Len(best) == ai+1 {
			b := outcomeOf(vrt.Index(best, ai))
			for j := range outs {
				vrt.AssertAt(vrt.Name("best_is_max", ai), j, b >= outs[j]*100)
			}
		}
	}
	vrt.Assert("end_ok", h.End() == nil)
	best := vrt.GetField(h, "bestResults")
	for i := 1; i < vrt.Len(best); i++ {
		vrt.AssertAt("overall_non_increasing", i, outcomeOf(vrt.Index(best, i-1)) >= outcomeOf(vrt.Index(best, i)))
	}
	vrt.Reach("end")
}

// ---- 2. protocol and completeness ----

type recEvent struct {
	kind     string
	assetN   string
	strategy string
	actions  []strategy.Action
	outcomes []float64
	nsnaps   int
}

type recReport struct {
	events []recEvent
}

func (r *recReport) Begin(names []string, ss []strategy.Strategy) error {
	r.events = append(r.events, recEvent{kind: "begin"})
	return nil
}
func (r *recReport) AssetBegin(name string, ss []strategy.Strategy) error {
	r.events = append(r.events, recEvent{kind: "assetbegin", assetN: name})
	return nil
}
func (r *recReport) Write(name string, s strategy.Strategy, snaps <-chan *asset.Snapshot, actions <-chan strategy.Action, outcomes <-chan float64) error {
	d1, d2 := make(chan struct{}), make(chan struct{})
	n := 0
	var as []strategy.Action
	go func() {
		for range snaps {
			n++
		}
		close(d1)
	}()
	go func() { as = Collect1(actions); close(d2) }()
	os := Collect1(outcomes)
	<-d1
	<-d2
	r.events = append(r.events, recEvent{kind: "write", assetN: name, strategy: s.Name(), actions: as, outcomes: os, nsnaps: n})
	return nil
}
func (r *recReport) AssetEnd(name string) error {
	r.events = append(r.events, recEvent{kind: "assetend", assetN: name})
	return nil
}
func (r *recReport) End() error {
	r.events = append(r.events, recEvent{kind: "end"})
	return nil
}

// H_C13_Protocol: Backtest.Run over an in-memory repository (nAssets assets, ns
// snapshots each with symbolic increasing dates), nStrat stub strategies with
// symbolic action words, a recording report, one worker: notifications come in
// protocol order, every (asset, strategy) pair is written once, with the
// actions / outcomes of a direct ComputeWithOutcome on the snapshots inside the
// look-back window ("now" is a symbolic day).
func H_C13_Protocol(nAssets, ns, nStrat, explicitNames int) {
	repo := asset.NewInMemoryRepository()
	names := []string{"a0", "a1", "a2"}[:nAssets]
	data := map[string][]*asset.Snapshot{}
	for _, name := range names {
		ss := snapsAt(name, incDays(name, ns))
		for _, s := range ss {
			vrt.Assume(s.Close > 0)
		}
		data[name] = ss
		_ = repo.Append(name, Src(ss, 0))
	}
	rec := &recReport{}
	bt := backtest.NewBacktest(repo, rec)
	strategies := make([]strategy.Strategy, nStrat)
	words := make([][]strategy.Action, nStrat)
	for j := range strategies {
		words[j] = symActions(vrt.Name("w", j), ns)
		strategies[j] = &stubStrategy{name: vrt.Name("s", j), acts: words[j]}
	}
	bt.Strategies = strategies
	if explicitNames == 1 {
		bt.Names = append([]string{}, names...)
	}
	lastDays := 30
	bt.LastDays = lastDays
	vrt.Assert("run_ok", bt.Run() == nil)
	// protocol order
	ev := rec.events
	vrt.Assert("count", len(ev) == 2+nAssets*(2+nStrat))
	if len(ev) == 2+nAssets*(2+nStrat) {
		vrt.Assert("first_begin", ev[0].kind == "begin")
		vrt.Assert("last_end", ev[len(ev)-1].kind == "end")
		seen := map[string]bool{}
		for a := 0; a < nAssets; a++ {
			base := 1 + a*(2+nStrat)
			name := ev[base].assetN
			vrt.AssertAt("assetbegin", a, ev[base].kind == "assetbegin" && !seen[name])
			seen[name] = true
			for j := 0; j < nStrat; j++ {
				w := ev[base+1+j]
				vrt.AssertAt(vrt.Name("write", a), j, w.kind == "write" && w.assetN == name && w.strategy == strategies[j].Name())
				// the written streams are those of a direct evaluation on the snapshots the worker saw
				k := w.nsnaps
				all := data[name]
				vrt.AssertAt(vrt.Name("window_is_suffix", a), j, k <= len(all))
				if k <= len(all) {
					win := all[len(all)-k:]
					acts, outs := strategy.ComputeWithOutcome(&stubStrategy{name: "x", acts: words[j]}, Src(win, 0))
					res := make([]strategy.Action, 0)
					d := make(chan struct{})
					go func() { res = Collect1(acts); close(d) }()
					ro := Collect1(outs)
					<-d
					vrt.AssertAt(vrt.Name("actions_len", a), j, len(res) == len(w.actions))
					for i := range res {
						if i < len(w.actions) {
							vrt.AssertAt(vrt.Name("action", a*10+j), i, res[i] == w.actions[i])
						}
					}
					for i := range ro {
						if i < len(w.outcomes) {
							vrt.AssertEqAt(vrt.Name("outcome", a*10+j), i, w.outcomes[i], ro[i])
						}
					}
				}
			}
			vrt.AssertAt("assetend", a, ev[base+1+nStrat].kind == "assetend" && ev[base+1+nStrat].assetN == name)
		}
		for _, name := range names {
			vrt.Assert("asset_reported_"+name, seen[name])
		}
	}
	vrt.Reach("end")
}

// H_C13_Workers: Backtest.Run with the bundled DataReport and `workers` workers:
// every (asset, strategy) pair has exactly one result, equal to the one-worker
// result; the engine's certificate over memory cells reports data races.
func H_C13_Workers(nAssets, ns, nStrat, workers, html int) {
	repo := asset.NewInMemoryRepository()
	names := []string{"a0", "a1", "a2", "a3", "a4"}[:nAssets]
	for _, name := range names {
		ss := snapsAt(name, incDays(name, ns))
		for _, s := range ss {
			vrt.Assume(s.Close > 0)
		}
		_ = repo.Append(name, Src(ss, 0))
	}
	words := make([][]strategy.Action, nStrat)
	mk := func() []strategy.Strategy {
		ss := make([]strategy.Strategy, nStrat)
		for j := range ss {
			if words[j] == nil {
				words[j] = symActions(vrt.Name("w", j), ns)
			}
			ss[j] = &stubStrategy{name: vrt.Name("s", j), acts: words[j]}
		}
		return ss
	}
	if html == 1 {
		stubHTMLIO()
		h := backtest.NewHTMLReport(vrt.TempDir())
		h.WriteStrategyReports = false
		bt := backtest.NewBacktest(repo, h)
		bt.Names = append([]string{}, names...)
		bt.Strategies = mk()
		bt.Workers = workers
		bt.LastDays = 20000
		vrt.Assert("run_ok", bt.Run() == nil)
		vrt.Assert("best_per_asset", vrt.Len(vrt.GetField(h, "bestResults")) == nAssets)
		vrt.Reach("end")
		return
	}
	run := func(w int) *backtest.DataReport {
		dr := backtest.NewDataReport()
		bt := backtest.NewBacktest(repo, dr)
		bt.Names = append([]string{}, names...)
		bt.Strategies = mk()
		bt.Workers = w
		bt.LastDays = 20000
		vrt.Assert("run_ok", bt.Run() == nil)
		return dr
	}
	got := run(workers)
	ref := run(1)
	for _, name := range names {
		g, r := got.Results[name], ref.Results[name]
		vrt.Assert("one_result_per_strategy_"+name, len(g) == nStrat && len(r) == nStrat)
		for j := 0; j < nStrat && j < len(g) && j < len(r); j++ {
			vrt.AssertAt("same_strategy_"+name, j, g[j].Strategy.Name() == r[j].Strategy.Name())
			vrt.AssertEqAt("same_outcome_"+name, j, g[j].Outcome, r[j].Outcome)
			vrt.AssertAt("same_action_"+name, j, g[j].Action == r[j].Action)
		}
	}
	vrt.Reach("end")
}

var _ = helper.Drain[int]

// H_C13_ProtocolMissing: the asset list names an asset the repository cannot deliver
// (delisted) between regular ones: every announced asset still gets its writes and
// its AssetEnd, in order, and the regular assets are all reported.
func H_C13_ProtocolMissing(nAssets, nStrat, pos int) {
	repo := asset.NewInMemoryRepository()
	good := []string{"a0", "a1", "a2"}[:nAssets]
	for _, name := range good {
		ss := snapsAt(name, incDays(name, 2))
		for _, s := range ss {
			vrt.Assume(s.Close > 0)
		}
		_ = repo.Append(name, Src(ss, 0))
	}
	var names []string
	for i, g := range good {
		if i == pos {
			names = append(names, "gone")
		}
		names = append(names, g)
	}
	if pos >= len(good) {
		names = append(names, "gone")
	}
	rec := &recReport{}
	bt := backtest.NewBacktest(repo, rec)
	strategies := make([]strategy.Strategy, nStrat)
	for j := range strategies {
		strategies[j] = &stubStrategy{name: vrt.Name("s", j), acts: symActions(vrt.Name("w", j), 2)}
	}
	bt.Strategies = strategies
	bt.Names = names
	bt.LastDays = 20000
	vrt.Assert("run_ok", bt.Run() == nil)
	ev := rec.events
	vrt.Assert("begin_first", len(ev) >= 2 && ev[0].kind == "begin")
	vrt.Assert("end_last", len(ev) >= 2 && ev[len(ev)-1].kind == "end")
	reported := map[string]bool{}
	i := 1
	for i < len(ev)-1 {
		vrt.AssertAt("assetbegin", i, ev[i].kind == "assetbegin")
		if ev[i].kind != "assetbegin" {
			break
		}
		name := ev[i].assetN
		reported[name] = true
		ok := i+1+nStrat < len(ev)-1+1
		vrt.AssertAt("announced_asset_is_completed", i, ok)
		if !ok {
			break
		}
		for j := 0; j < nStrat; j++ {
			w := ev[i+1+j]
			vrt.AssertAt("write_follows", i*10+j, w.kind == "write" && w.assetN == name)
		}
		e := ev[i+1+nStrat]
		vrt.AssertAt("assetend_follows", i, e.kind == "assetend" && e.assetN == name)
		i += 2 + nStrat
	}
	for _, g := range good {
		vrt.Assert("asset_reported_"+g, reported[g])
	}
	vrt.Reach("end")
}
