package h

import (
	"time"

	"github.com/cinar/indicator/v2/asset"
	"github.com/cinar/indicator/v2/helper"
	"github.com/cinar/indicator/v2/strategy"
	"verif/harness/vrt"
)

// H_WarmS reports a strategy configuration's warm-up to the driver.
func H_WarmS(name string, c1, c2, c3, dflt int) {
	st := LookupS(name)
	s := st.Make(cfg3(c1, c2, c3), dflt == 1)
	vrt.Note("w", st.Warm(s))
}

// H_C05: exactly one action per snapshot, each in {Sell,Hold,Buy}, Hold through warm-up;
// for n below the warm-up: only Holds and at least n of them.
func H_C05(name string, c1, c2, c3, dflt, n int) {
	st := LookupS(name)
	cfg := cfg3(c1, c2, c3)
	s := st.Make(cfg, dflt == 1)
	w := st.Warm(s)
	if id := kfS(st.KFOutcome, cfg, n); id != "" {
		vrt.KnownOutcome(id)
	}
	snaps := SymSnapshots("", n)
	acts := RunStrat(s, snaps, 0)
	id := kfS(st.KFLen, cfg, n)
	check := func(label string, c bool) {
		if id != "" && !st.KFHoldOnly {
			vrt.KnownFinding(id, label, c)
		} else {
			vrt.Assert(label, c)
		}
	}
	if n >= w {
		check("count", len(acts) == n)
	} else {
		check("count_short", len(acts) >= n)
	}
	for i, a := range acts {
		vrt.AssertAt("domain", i, a == strategy.Sell || a == strategy.Hold || a == strategy.Buy)
		if i < w || n < w {
			if id != "" {
				vrt.KnownFindingAt(id, "hold_in_warmup", i, a == strategy.Hold)
			} else {
				vrt.AssertAt("hold_in_warmup", i, a == strategy.Hold)
			}
		}
	}
	vrt.Reach("end")
}

// H_C06: the action at position i >= w_s is the documented rule applied to the
// documented indicator computed from the documented fields.
func H_C06(name string, c1, c2, c3, dn int) {
	st := LookupS(name)
	cfg := cfg3(c1, c2, c3)
	s := st.Make(cfg, false)
	w := st.Warm(s)
	n := w + dn
	snaps := SymSnapshots("", n)
	acts := RunStrat(s, snaps, 0)
	want, exempt := st.Rule(st.Make(cfg, false), snaps)
	for i := w; i < n && i < len(acts); i++ {
		id := ""
		if st.KFRule != nil {
			id = st.KFRule(cfg, n, i)
		}
		ok := exempt[i] || acts[i] == want[i]
		if id != "" {
			vrt.KnownFindingAt(id, "rule", i, ok)
		} else {
			vrt.AssertAt("rule", i, ok)
		}
	}
	vrt.Reach("end")
}

func setDay(s *asset.Snapshot, i int) { vrt.SetField(&s.Date, "ext", int64(i+1)) }
func dayOf(d time.Time) int           { return int(vrt.GetField(&d, "ext").(int64)) - 1 }

type colData struct {
	name  string
	isNum bool
	nums  []float64
	strs  []string
}

// drainReport reads the date stream and every column's stream concurrently.
func drainReport(r *helper.Report) ([]time.Time, []*colData) {
	cols := make([]*colData, len(r.Columns))
	dones := make([]chan struct{}, len(r.Columns))
	for i, c := range r.Columns {
		cd := &colData{name: c.Name(), isNum: c.Type() == "number"}
		cols[i] = cd
		dones[i] = make(chan struct{})
		if cd.isNum {
			ch := vrt.GetField(c, "values").(<-chan float64)
			go func(i int) {
				for v := range ch {
					cd.nums = append(cd.nums, v)
				}
				close(dones[i])
			}(i)
		} else {
			ch := vrt.GetField(c, "values").(<-chan string)
			go func(i int) {
				for v := range ch {
					cd.strs = append(cd.strs, v)
				}
				close(dones[i])
			}(i)
		}
	}
	var dates []time.Time
	for d := range r.Date {
		dates = append(dates, d)
	}
	for i := range dones {
		<-dones[i]
	}
	return dates, cols
}

// H_C14: every report column has exactly one value per date row; the row of
// date d carries d's close, the annotation of the normalised action for d and
// the outcome as of d; stated indicator columns carry the indicator's value for d.
func H_C14(name string, c1, c2, c3, dn int) {
	st := LookupS(name)
	cfg := cfg3(c1, c2, c3)
	s := st.Make(cfg, false)
	w := st.Warm(s)
	n := w + dn
	snaps := SymSnapshots("", n)
	for i := range snaps {
		setDay(snaps[i], i)
	}
	rep := s.Report(Src(snaps, 0))
	dates, cols := drainReport(rep)
	rows := len(dates)
	kfc := func(col string) string {
		if st.KFCol == nil {
			return ""
		}
		return st.KFCol(cfg, n, col)
	}
	if id := kfc("rows"); id != "" {
		vrt.KnownFinding(id, "rows", rows >= 1 && rows <= n)
	} else {
		vrt.Assert("rows", rows >= 1 && rows <= n)
	}
	first := n - rows // rows are the last `rows` snapshots
	for r := 0; r < rows; r++ {
		vrt.AssertAt("date_consecutive", r, dayOf(dates[r]) == first+r)
	}
	// reference streams from the real Compute / Outcome on the same snapshots
	acts := RunStrat(st.Make(cfg, false), snaps, 0)
	var ann []string
	var outc []float64
	if len(acts) == n {
		ann = annotationModel(acts)
		outc = portfolio(fClose(snaps), acts) // the independent all-in / all-out model of C08
	}
	var exp map[string][]float64
	if st.Cols != nil {
		exp = st.Cols(st.Make(cfg, false), snaps)
	}
	for _, c := range cols {
		id := ""
		if st.KFCol != nil {
			id = st.KFCol(cfg, n, c.name)
		}
		cnt := len(c.nums)
		if !c.isNum {
			cnt = len(c.strs)
		}
		label := "colcount_" + colLabel(c)
		if id != "" {
			vrt.KnownFinding(id, label, cnt == rows)
		} else {
			vrt.Assert(label, cnt == rows)
		}
		if cnt != rows || first < 0 {
			continue
		}
		for r := 0; r < rows; r++ {
			d := first + r
			switch {
			case c.isNum && c.name == "Close":
				if id != "" {
					vrt.KnownFindingEqAt(id, "close", r, c.nums[r], snaps[d].Close)
				} else {
					vrt.AssertEqAt("close", r, c.nums[r], snaps[d].Close)
				}
			case c.isNum && c.name == "Outcome":
				if outc != nil && d < len(outc) {
					vrt.AssertEqAt("outcome", r, c.nums[r], outc[d]*100)
				}
			case !c.isNum:
				if ann != nil && d < len(ann) {
					want := "null"
					_ = want
					vrt.AssertAt("annotation", r, c.strs[r] == ann[d])
				}
			default:
				if exp != nil {
					if e, ok := exp[c.name]; ok && e != nil && d >= w {
						if id != "" {
							vrt.KnownFindingEqAt(id, "col_"+c.name, r, c.nums[r], e[d])
						} else {
							vrt.AssertEqAt("col_"+c.name, r, c.nums[r], e[d])
						}
					}
				}
			}
		}
	}
	vrt.Reach("end")
}

// annotationModel: the documented annotation of an action word, independent of the
// library's own helpers: the word is normalised (a Buy / Sell counts only when it
// differs from the last one that counted; a Sell before any Buy does not count) and a
// counting Buy is annotated "B", a counting Sell "S", everything else "".
func annotationModel(acts []strategy.Action) []string {
	out := make([]string, len(acts))
	last := strategy.Sell
	for i, a := range acts {
		take := vrt.Ite(a != strategy.Hold, a != last, false)
		last = vrt.Ite(take, a, last)
		out[i] = vrt.Ite(take, vrt.Ite(a == strategy.Buy, "B", "S"), "")
	}
	return out
}

func colLabel(c *colData) string {
	if !c.isNum {
		return "annotation"
	}
	return c.name
}

// H_C04S: running a strategy on a prefix yields the prefix of its actions.
func H_C04S(name string, c1, c2, c3, dn, cut int) {
	st := LookupS(name)
	cfg := cfg3(c1, c2, c3)
	s := st.Make(cfg, false)
	w := st.Warm(s)
	n := w + dn
	m := n - cut
	if m < 0 {
		m = 0
	}
	snaps := SymSnapshots("", n)
	full := RunStrat(s, snaps, 0)
	short := RunStrat(st.Make(cfg, false), snaps[:m], 0)
	id := kfS(st.KFLen, cfg, m)
	if id == "" {
		id = kfS(st.KFLen, cfg, n)
	}
	for k := range short {
		if k < len(full) && k < m {
			if id != "" {
				vrt.KnownFindingAt(id, "prefix", k, short[k] == full[k])
			} else {
				vrt.AssertAt("prefix", k, short[k] == full[k])
			}
		}
	}
	vrt.Reach("end")
}

// H_C18S: scaling all prices (which 0: x2, 1: x1/4) or all volumes (2: x2, 3: x1/4)
// changes no recommendation.
func H_C18S(name string, c1, c2, c3, dn, which int) {
	st := LookupS(name)
	cfg := cfg3(c1, c2, c3)
	s := st.Make(cfg, false)
	w := st.Warm(s)
	n := w + dn
	lp, lv := 1.0, 1.0
	switch which {
	case 0:
		lp = 2
	case 1:
		lp = 0.25
	case 2:
		lv = 2
	case 3:
		lv = 0.25
	}
	snaps := SymSnapshots("", n)
	sc := make([]*asset.Snapshot, n)
	for i, x := range snaps {
		sc[i] = &asset.Snapshot{Open: x.Open * lp, High: x.High * lp, Low: x.Low * lp, Close: x.Close * lp, Volume: x.Volume * lv}
	}
	a := RunStrat(s, snaps, 0)
	b := RunStrat(st.Make(cfg, false), sc, 0)
	vrt.Assert("len", len(a) == len(b))
	for i := range a {
		if i < len(b) {
			vrt.AssertAt("same_action", i, a[i] == b[i])
		}
	}
	vrt.Reach("end")
}

// H_C03S: termination / no leak / schedule independence of a strategy pipeline
// (the engine issues the certificate); capacity = snapshot channel capacity.
func H_C03S(name string, c1, c2, c3, dflt, n, capacity int) {
	st := LookupS(name)
	cfg := cfg3(c1, c2, c3)
	s := st.Make(cfg, dflt == 1)
	if id := kfS(st.KFOutcome, cfg, n); id != "" {
		vrt.KnownOutcome(id)
	}
	snaps := SymSnapshots("", n)
	_ = RunStrat(s, snaps, capacity)
	vrt.Reach("end")
}

// H_C03S_Report: the Report pipeline terminates when the date stream and every
// column are drained by independent readers.
func H_C03S_Report(name string, c1, c2, c3, n, capacity int) {
	st := LookupS(name)
	cfg := cfg3(c1, c2, c3)
	s := st.Make(cfg, false)
	snaps := SymSnapshots("", n)
	rep := s.Report(Src(snaps, capacity))
	_, _ = drainReport(rep)
	vrt.Reach("end")
}

// H_C09S: a strategy instance holds configuration only (sequential reuse + no writes).
func H_C09S(name string, c1, c2, c3, dn1, dn2 int) {
	st := LookupS(name)
	cfg := cfg3(c1, c2, c3)
	s := st.Make(cfg, false)
	w := st.Warm(s)
	a := SymSnapshots("a", w+dn1)
	b := SymSnapshots("b", w+dn2)
	vrt.Freeze(s)
	_ = RunStrat(s, a, 0)
	second := RunStrat(s, b, 0)
	vrt.Unfreeze()
	fresh := RunStrat(st.Make(cfg, false), b, 0)
	vrt.Assert("len", len(second) == len(fresh))
	for i := range fresh {
		if i < len(second) {
			vrt.AssertAt("reuse", i, second[i] == fresh[i])
		}
	}
	vrt.Reach("end")
}

// H_C03_Comb: the vote combinators (kind 0 And, 1 Or, 2 Majority, 3 Split) over
// two stub strategies whose action counts differ: skew 0: n,n ; 1: n+1,n ;
// 2: n,n+1 ; 3: n-1,n ; 4: n,n-1. The pipeline must terminate without a leftover goroutine.
func H_C03_Comb(kind, k, n, skew int) {
	d := [][2]int{{0, 0}, {1, 0}, {0, 1}, {-1, 0}, {0, -1}}[skew]
	mk := func(j, delta int) strategy.Strategy {
		m := n + delta
		if m < 0 {
			m = 0
		}
		extra := 0
		if delta > 0 {
			extra = delta
			m = n
		}
		return &stubStrategy{name: "s", acts: symActions(vrt.Name("a", j), m), extra: extra}
	}
	a, b := mk(0, d[0]), mk(1, d[1])
	var s strategy.Strategy
	switch kind {
	case 0:
		s = strategy.NewAndStrategy("and", a, b)
	case 1:
		s = strategy.NewOrStrategy("or", a, b)
	case 2:
		s = strategy.NewMajorityStrategyWith("maj", []strategy.Strategy{a, b})
	default:
		s = strategy.NewSplitStrategy(a, b)
	}
	_ = Collect1(s.Compute(Src(snapshotsOf(positive("c", n)), 0)))
	vrt.Reach("end")
}

// colTap sits between a report column and its value stream and hands values over
// one permit at a time, so that the number of values a single Value() call takes
// is observable without a data race (every field is written before the hand-over
// send / close that the consumer's receive synchronises with).
type colTap struct {
	permit chan struct{}
	taken  int
	closed bool
}

func tapColumn[T any](c helper.ReportColumn) *colTap {
	src := vrt.GetField(c, "values").(<-chan T)
	out := make(chan T)
	t := &colTap{permit: make(chan struct{})}
	go func() {
		for range t.permit {
			v, ok := <-src
			if !ok {
				t.closed = true
				close(out)
				return
			}
			t.taken++
			out <- v
		}
	}()
	vrt.SetField(c, "values", (<-chan T)(out))
	return t
}

// H_C14_Value: the report is consumed the way the report writer does it - for every
// date row one Value() call per column, in lock-step. Every Value() call takes exactly
// one value from its column (a call that needs a second one blocks: deadlock), no
// column is exhausted before the last date row, and none has values left afterwards.
// zeroPrices != 0 admits zero prices (used with the zero-denominator exploration).
func H_C14_Value(name string, c1, c2, c3, dn, zeroPrices int) {
	st := LookupS(name)
	if st.KFCol != nil {
		// strategies with recorded column findings are decided by H_C14
		vrt.Reach("end")
		return
	}
	cfg := cfg3(c1, c2, c3)
	s := st.Make(cfg, false)
	w := st.Warm(s)
	n := w + dn
	snaps := symSnapshots("", n, zeroPrices != 0) // zeroPrices: a series with missing quotes (price 0)
	for i := range snaps {
		setDay(snaps[i], i)
	}
	rep := s.Report(Src(snaps, 0))
	taps := make([]*colTap, len(rep.Columns))
	for i, c := range rep.Columns {
		if c.Type() == "number" {
			taps[i] = tapColumn[float64](c)
		} else {
			taps[i] = tapColumn[string](c)
		}
	}
	rows := 0
	for range rep.Date {
		for i, c := range rep.Columns {
			if !taps[i].closed {
				taps[i].permit <- struct{}{}
				_ = c.Value()
			}
			vrt.AssertAt("column_not_exhausted_"+c.Name(), rows, !taps[i].closed)
			vrt.AssertAt("one_value_per_row_"+c.Name(), rows, taps[i].taken == rows+1)
		}
		rows++
	}
	for i, c := range rep.Columns {
		if taps[i].closed {
			continue
		}
		taps[i].permit <- struct{}{}
		_ = c.Value()
		vrt.Assert("nothing_unconsumed_"+c.Name(), taps[i].closed)
	}
	for i := range taps {
		if !taps[i].closed {
			close(taps[i].permit)
		}
	}
	vrt.Assert("rows", rows >= 1 && rows <= n)
	vrt.Reach("end")
}

// H_C04S_Tail: two runs on snapshot series of the same length that agree on the first
// m snapshots and differ afterwards: the actions at positions < m are the same.
func H_C04S_Tail(name string, c1, c2, c3, dn, cut int) {
	st := LookupS(name)
	cfg := cfg3(c1, c2, c3)
	s := st.Make(cfg, false)
	w := st.Warm(s)
	n := w + dn
	m := n - cut
	if m < 0 {
		m = 0
	}
	if id := kfS(st.KFOutcome, cfg, n); id != "" {
		vrt.KnownOutcome(id)
	}
	snapsA := SymSnapshots("", n)
	tail := SymSnapshots("t", n)
	snapsB := append(append([]*asset.Snapshot(nil), snapsA[:m]...), tail[m:]...)
	a := RunStrat(s, snapsA, 0)
	b := RunStrat(st.Make(cfg, false), snapsB, 0)
	for k := range a {
		if k < m && k < len(b) {
			vrt.AssertAt("causal", k, a[k] == b[k])
		}
	}
	vrt.Reach("end")
}

// H_C03S_Late: Compute is called before the snapshot producer exists.
func H_C03S_Late(name string, c1, c2, c3, n int) {
	st := LookupS(name)
	cfg := cfg3(c1, c2, c3)
	s := st.Make(cfg, false)
	if id := kfS(st.KFOutcome, cfg, n); id != "" {
		vrt.KnownOutcome(id)
	}
	snaps := SymSnapshots("", n)
	c := make(chan *asset.Snapshot)
	acts := s.Compute(c)
	go func() {
		defer close(c)
		for _, x := range snaps {
			c <- x
		}
	}()
	got := Collect1(acts)
	vrt.Assert("some_actions", len(got) >= 0)
	vrt.Reach("end")
}
