// Package h holds the harnesses: ordinary Go functions that the symbolic
// executor runs with symbolic vrt inputs and that replay natively.
package h

import (
	"github.com/cinar/indicator/v2/helper"
)

// Src feeds a slice into a channel of the given capacity (like helper.SliceToChan,
// with the capacity as a grid parameter).
func Src[T any](xs []T, capacity int) <-chan T {
	c := make(chan T, capacity)
	go func() {
		defer close(c)
		for _, x := range xs {
			c <- x
		}
	}()
	return c
}

// Collect drains every channel with its own reader goroutine.
func Collect[T any](cs ...<-chan T) [][]T {
	res := make([][]T, len(cs))
	dones := make([]chan struct{}, len(cs))
	for i := range cs {
		dones[i] = make(chan struct{})
		go func(i int) {
			for v := range cs[i] {
				res[i] = append(res[i], v)
			}
			close(dones[i])
		}(i)
	}
	for i := range cs {
		<-dones[i]
	}
	return res
}

// Collect1 drains one channel in the calling goroutine.
func Collect1[T any](c <-chan T) []T { return helper.ChanToSlice(c) }

func imax(a, b int) int {
	if a > b {
		return a
	}
	return b
}

func imin(a, b int) int {
	if a < b {
		return a
	}
	return b
}
